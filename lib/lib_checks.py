"""Library layer checks (zkchannels-crypto): C07, C08 on PSig.tla; C09 on Pedersen.tla; C10, C11 on Schnorr.tla; C13 on RangeC.tla."""
import json, os, time
from common import *


def run_lib(pid, cmd, tier, seed, trace_module, keep, extra_args=()):
    """run a harness command, keep the events selected by `keep`, validate them; returns events"""
    d = workdir(f"{pid}_run")
    raw = os.path.join(d, f"{cmd}.raw.ndjson")
    harness([cmd, "--out", raw, "--seed", seed, "--tier", tier] + list(extra_args))
    events = [json.loads(l) for l in open(raw)]
    for e in events:
        if "error" in e:
            raise ToolError(f"harness {cmd}: {e}")
    events = [e for e in events if keep(e)]
    tp = os.path.join(d, f"{cmd}.trace.ndjson")
    with open(tp, "w") as f:
        for e in events:
            f.write(json.dumps(e) + "\n")
    v = validate_trace(trace_module, trace_module + ".cfg", tp, name=f"trace_{pid}")
    if not v["accepted"]:
        e = events[v["matched"]]
        raise Violation(pid, describe(e), {"kind": "lib", "property": pid, "cmd": cmd, "seed": seed, "tier": tier, "event": e})
    return events


def describe(e):
    ev = e.get("ev")
    if ev == "psig":
        bad = [c for c in e["checks"] if c["verdict"] != ((not e["s1_is_identity"]) and c["pairing_eq"])]
        chain = " -> ".join(f"{o['op']}({o['r'] or ''})" for o in e["ops"]) or "sign"
        if bad:
            return f"Signature::verify (N={e['N']}, chain {chain}) returned {bad[0]['verdict']} but sigma1_is_identity={e['s1_is_identity']}, pairing equation={bad[0]['pairing_eq']} ({bad[0]['kind']})"
        return f"signature chain (N={e['N']}, message {e['msg']}, chain {chain}): verdicts {[(c['kind'], c['verdict']) for c in e['checks'][:4]]} contradict the provenance (PSig.tla)"
    if ev == "request":
        return f"signature request (N={e['N']}, tamper={e['tamper']}): outcome {e['out']}, Schnorr relation holds={e['schnorr_holds']}"
    if ev == "capability":
        return (f"{e['type']} (a value that exists only as the result of a verifying proof): decodable from bytes = {e['deserialize']}, "
                f"clonable = {e['clone']} (documented as one-shot: {e['clone_forbidden']})")
    if ev == "proof":
        return (f"{e['kind']} proof (N={e['N']}, case {e['case']}): verdict {e.get('verdict')}, decoded {e.get('decoded')}, independently evaluated relations {e.get('atoms')}"
                + (f", builder challenge = proof challenge: {e.get('builder_eq_proof')}, patterns {e.get('patterns')}" if e["case"] == "honest" else ""))
    if ev == "pattern":
        return f"documented constraint pattern fails on an honest {e['host']} proof (message {e['m']}, public {e['public']}): verifies={e['verifies']}, {e['patterns']}"
    if ev == "rangeprover":
        return f"range prover on {e['value']}: outcome {e['out']}, honest constraint checks {e.get('honest')}"
    if ev == "rangeattack":
        return f"range constraint assembled by an attacker ({e['case']}): verdict {e['verdict']}, relations {e['atoms']}, linked value in range: {e['linked_value_in_range']}"
    if ev == "rangeparams":
        return f"range parameters ({e['case']}): validate() ok = {e['validate_ok']}, all 128 signatures valid (independent) = {e['all_signatures_valid_independently']}"
    if ev in ("trynew", "payctor", "tryadd", "amtdecode", "apply", "encamt"):
        return f"balance / amount arithmetic deviates from Ledger.tla: {json.dumps(e)[:500]}"
    if ev == "keygen":
        return f"{e['what']} generated under a zero window at scalar draw {e['offset']} (width {e['width']}): outcome {e['out']}, facts {e['facts']}"
    if ev in ("nonce", "statenonce", "noncedecode", "tagsep", "cid", "crafted"):
        return f"{ev}: {json.dumps(e)[:500]}"
    if ev == "pedersen_lifecycle":
        return (f"Pedersen parameters ({e['group']}, N={e['N']}), history '{e['history']}': commitment correct before = {e['before_ok']}, after = {e['after_ok']}, "
                f"a commitment made under the old generators still opens = {e['old_commitment_opens_under_new_generators']}")
    if ev == "pedersen":
        bad = [p for p in e["perturbed"] if p["verdict"] or p["verdict"] != p["recomputed_eq"]]
        return (f"Pedersen commitment ({e['group']}, N={e['N']}, {e['params']}, m={e['m']}, r={e['r']}): element equals independent h^r*prod g_i^m_i: {e['elem_eq_independent']}, "
                f"original opening accepted: {e['verify_original']}, additive: {e['additive']}, accepted perturbations: {bad[:2]}")
    return f"event rejected: {json.dumps(e)[:400]}"


def lib_evidence(pid, tier, seed, models, events, rule, cmdtxt, t0, distinct_key, assumptions):
    states = sum(m["distinct"] for m in models)
    trans = sum(m["generated"] for m in models)
    cov = {"states": states, "transitions": trans, "traces_validated_against_impl": len(events),
           "evaluations": len(events), "distinct_nontrivial": len({distinct_key(e) for e in events}),
           "rule": rule, "samples": events[:2] + events[len(events) // 2: len(events) // 2 + 2], "exhaustive": False, "checker_cmd": cmdtxt}
    return write_evidence(pid, tier, seed, "model_checking", cov, time.time() - t0, 0, assumptions)


ALG_ASSUME = ["exponent-instance model over Z_5 / Z_7 (A4: the lemmas use only field axioms)", "bls12_381 pairing and group arithmetic, used by the independent evaluator, are correct",
              "negligible-probability coincidences of random scalars are ignored"]


def psig_models(tier):
    ms = [tlc_model("PSig", "MC_PSig_N1.cfg", workers=8, name="mc_psig1", must_cover=["Next"])]
    if tier != "quick":
        ms.append(tlc_model("PSig", "MC_PSig_N2.cfg", workers=12, name="mc_psig2"))
    return ms


def check_C07(tier, seed):
    t0 = time.time()
    build_harness()
    ms = psig_models(tier)
    ev = run_lib("C07", "psig", tier, seed, "Trace_PSig", lambda e: e["ev"] == "psig")
    return lib_evidence("C07", tier, seed, ms, ev,
        "one evaluation = one signature taken through a chain of sign / randomize / blind_and_randomize / BlindedSignature::randomize / blind-sign / unblind with randomiser classes "
        "{generic, 1, q-1, 0} and blinding factors {a, b, 0, 1, q-1}, for N in {1,2,3,5,8,13} and message classes {random, 0, 1, q-1, small, zero-then-nonzero}; each is verified on its message, "
        "on every single-coordinate change (and neighbour swaps), under another key, and against the independently evaluated pairing equation; distinct = (N, message class, chain)",
        "tlc PSig (VerifyExact SingleChangeRejects DegenerateNeverVerifies WrongFactorRejects) + Trace_PSig on harness chains", t0,
        lambda e: (e["N"], tuple(e["msg"]), json.dumps(e["ops"])), ALG_ASSUME)


def check_C08(tier, seed):
    t0 = time.time()
    build_harness()
    ms = psig_models(tier)
    ev = run_lib("C08", "psig", tier, seed, "Trace_PSig",
                 lambda e: e["ev"] in ("request", "capability") or (e["ev"] == "psig" and any(o["op"] == "blindsign" for o in e["ops"])))
    return lib_evidence("C08", tier, seed, ms, ev,
        "one evaluation = one signature request: honest (must yield a blind-signable value whose blind signature unblinds to a signature on the message and on no single-coordinate change) or "
        "tampered in one field of its wire form / the challenge / the key (must yield none); plus every blind-sign chain of C07; the outcome must equal the independently evaluated Schnorr relation; "
        "distinct = (N, message class, tampered field or chain)",
        "tlc PSig (BlindSign action, VerifyExact) + Trace_PSig on harness requests", t0,
        lambda e: (e.get("N", 0), tuple(e.get("msg", [e.get("type", "")])), e.get("tamper", json.dumps(e.get("ops")))), ALG_ASSUME)


def check_C09(tier, seed):
    t0 = time.time()
    build_harness()
    ms = [tlc_model("Pedersen", c, workers=8, name="mc_ped") for c in (["MC_Pedersen_N1.cfg", "MC_Pedersen_N2.cfg"] + ([] if tier == "quick" else ["MC_Pedersen_N3.cfg"]))]
    ev = run_lib("C09", "pedersen", tier, seed, "Trace_Pedersen", lambda e: e["ev"] in ("pedersen", "pedersen_lifecycle"))
    return lib_evidence("C09", tier, seed, ms, ev,
        "one evaluation = one commitment for G1 / G2, N in {1,2,3,5,8,13}, parameters generated by the library (read back through the wire form) or supplied explicitly (incl. g_1 = h), "
        "message and blinding factor from {0, 1, q-1, random} (incl. openings whose commitment is the identity element): element compared with an independent accumulation, original opening verified, "
        "every single-coordinate (+-1) and blinding-factor perturbation, a second opening and the homomorphism checked; distinct = (group, N, parameter kind, message class, blinding class)",
        "tlc Pedersen (AcceptsOriginal Exact SinglePerturbationRejects Homomorphic) + Trace_Pedersen on harness commitments", t0,
        lambda e: (e["group"], e["N"], e.get("params", e.get("history")), tuple(e.get("m", [])), e.get("r", "")), ALG_ASSUME)


def schnorr_models(tier):
    ms = [tlc_model("Schnorr", "MC_Schnorr.cfg", workers=8, name="mc_schnorr")]
    if tier != "quick":
        ms.append(tlc_model("Schnorr", "MC_Schnorr_P5.cfg", workers=12, name="mc_schnorr5"))
    return ms


def check_C10(tier, seed):
    t0 = time.time()
    build_harness()
    ms = schnorr_models(tier) + [tlc_model("RangeC", "MC_RangeC.cfg", workers=4, name="mc_range")]
    ev = run_lib("C10", "schnorr", tier, seed, "Trace_Schnorr", lambda e: e["ev"] == "pattern" or (e["ev"] == "proof" and e["case"] == "honest"))
    return lib_evidence("C10", tier, seed, ms, ev,
        "one evaluation = one honest proof (commitment proof G1/G2, signature request proof, signature proof; N in {1,2,3,5,8,13}; message classes incl. 0, 1, q-1; every / sampled subset of slots "
        "with caller-chosen commitment scalars incl. 0) answered with the builder's challenge and verified under the proof's challenge, or one instance of a documented pattern (partial opening, equality "
        "within / across proofs, secret sum incl. commitment scalars cs and -cs, public addition, public product with public value in {0,1,q-1,random}, range link for boundary values 128^k-1, 128^k, 128^k+1, 2^63-1); "
        "distinct = (kind, N, message class, linked subset / pattern instance)",
        "tlc Schnorr (Complete SPComplete) + RangeC (ProverRoundTrip) + Trace_Schnorr on harness proofs", t0,
        lambda e: (e.get("kind", e.get("host")), e.get("N", 0), json.dumps(e.get("m")), json.dumps(e.get("linked", e.get("public"))), e.get("cs_sum_zero")), ALG_ASSUME)


def check_C11(tier, seed):
    t0 = time.time()
    build_harness()
    ms = schnorr_models(tier)
    ev = run_lib("C11", "schnorr", tier, seed, "Trace_Schnorr", lambda e: e["ev"] == "proof")
    return lib_evidence("C11", tier, seed, ms, ev,
        "one evaluation = one verifier call: honest proofs, every single-field perturbation of their wire form (each group element: +generator, identity, +small-order point outside the subgroup, "
        "swap C/T; each response scalar and the blinding response: +1), wrong challenge, wrong parameters / key, simulated transcripts under their own and another challenge, signature proofs around "
        "a signature on another message / by another key / the all-identity signature obtained through chosen randomness; the verdict must equal the conjunction of the independently evaluated "
        "Schnorr / well-formedness / pairing relations; distinct = (kind, N, case)",
        "tlc Schnorr (Exact PerturbationRejects Simulated SPIdentityNeverVerifies SPPerturbationRejects) + Trace_Schnorr on harness verifier calls", t0,
        lambda e: (e["kind"], e["N"], e["case"]), ALG_ASSUME)


def check_C13(tier, seed):
    t0 = time.time()
    build_harness()
    ms = [tlc_model("RangeC", "MC_RangeC.cfg", workers=4, name="mc_range")]
    if tier != "quick":
        ms.append(tlc_model("RangeC", "MC_RangeC_big.cfg", workers=12, name="mc_range2"))
    ev = run_lib("C13", "range", tier, seed, "Trace_Range", lambda e: e["ev"].startswith("range"))
    return lib_evidence("C13", tier, seed, ms, ev,
        "one evaluation = one prover call on an i64 of the boundary set (MIN, MIN+1, -2^62, -129..-1, 0, 1, 127..129, 128^k-1, 128^k, 128^k+1, -128^k, 2^62, 2^63-2, 2^63-1, random) with the honest constraint "
        "verified and checked against wrong slot / other parameters / other challenge / shifted response / no link; or one constraint assembled by an attacker from published digit signatures (all-maximal, "
        "permuted, swapped signatures, digit claimed 128 / -1 / 5000 with a signature on another digit, signatures under the attacker's key or another parameter set, a linear combination of two published "
        "signatures, unlinked); or one parameter set with a single signature substituted (i <- j, re-randomised own, other key) passed to validate(); distinct = (event kind, value or case)",
        "tlc RangeC (ProverRoundTrip ProverRefusesNegatives AcceptedImpliesInRange MaxForgeable MaxReached) + Trace_Range on harness executions", t0,
        lambda e: (e["ev"], e.get("value", e.get("case"))), ALG_ASSUME + ["A2: a digit proof verifies only for the digit its signature was issued on (checked concretely for every assembled case)"])


def replay_lib(pid, p):
    REGISTRY[pid](p.get("tier", "quick"), p["seed"])


REGISTRY = {"C07": check_C07, "C08": check_C08, "C09": check_C09, "C10": check_C10, "C11": check_C11, "C13": check_C13}
REPLAY = {"lib": replay_lib}
