"""Checks decided on ProofGame.tla (soundness of the composite proofs as a game): C01, C02, and the
transcript observation shared with C12.

(M) TLC decides Sound / Dichotomy / Complete of every cluster shape of the proof for the hashed sets
    OBSERVED on the implementation (challenge recorder hook);
(R) the strategy catalogue of the forger family is executed by the adversarial prover against the real
    merchant;
(T) every submitted proof is validated by TLC (Trace_Game.tla): verdict = conjunction of the
    independently evaluated relations, verdict = verdict of the game model, accepted => statement true,
    accepted => returned signatures unblind to valid signatures on exactly the hidden tuples."""
import json, os, time
from common import *
import game_strats as gs

EST_CLUSTERS = [  # (name, shape, cons, pubs, revs, digits, members->proof, rev key)
    ("est.cid", "Open2", "Open2Cons", "PubB", "RevS", "None", {"a": "state", "b": "close"}, "cid"),
    ("est.tag", "Open1", "Open1Cons", "PubB", "RevS", "None", {"a": "close"}, "tag"),
    ("est.lock", "Eq2", "Eq2Cons", "PubB", "None", "None", {"a": "state", "b": "close"}, None),
    ("est.cb", "Open2", "Open2Cons", "PubB", "RevS", "None", {"a": "state", "b": "close"}, "cb"),
    ("est.mb", "Open2", "Open2Cons", "PubB", "RevS", "None", {"a": "state", "b": "close"}, "mb"),
]


def tla_set(xs):
    return "{" + ", ".join('"%s"' % x for x in sorted(xs)) + "}"


def game_cfg(path, P, U, shape, cons, pubs, revs, digits, hrev, hC, hT, invs="Sound Dichotomy Complete"):
    open(path, "w").write(f"""SPECIFICATION Spec
CONSTANTS
  P = {P}
  U = {U}
  Members <- {shape}Members
  Cons <- {cons}
  Pubs <- {pubs}
  Revs <- {revs}
  Digits <- {digits}
  HashedRev = {tla_set(hrev)}
  HashedC = {tla_set(hC)}
  HashedT = {tla_set(hT)}
INVARIANTS {invs}
CHECK_DEADLOCK FALSE
""")


def run_game_models(pid, clusters, hashed, primes, U=2, workers=8):
    """TLC on every cluster with the observed hashed sets. Returns (states, transitions, list of unsound clusters)."""
    d = workdir(f"{pid}_cfg")
    states = trans = 0
    unsound, seen = [], {}
    for (name, shape, cons, pubs, revs, digits, mem2proof, revkey) in clusters:
        hrev = {"s"} if (revkey is None or hashed["rev"].get(revkey, False)) and revs != "None" else set()
        hC = {m for m, p in mem2proof.items() if hashed["C"].get(p, False)}
        hT = {m for m, p in mem2proof.items() if hashed["T"].get(p, False)}
        for P in primes:
            key = (shape, cons, tuple(sorted(hrev)), tuple(sorted(hC)), tuple(sorted(hT)), P)
            if key in seen:           # identical instance already decided
                if seen[key]:
                    unsound.append((name, P, seen[key]))
                continue
            cfg = os.path.join(d, f"{name}_{P}.cfg")
            game_cfg(cfg, P, U, shape, cons, pubs, revs, digits, hrev, hC, hT)
            r = tlc("MC_Game", cfg, workers=workers, name=f"{pid}_game", timeout=3000)
            states += r["distinct"]; trans += r["generated"]
            if r["ok"]:
                seen[key] = None
            elif r["violated"] in ("Sound",):
                seen[key] = r["violated"]
                unsound.append((name, P, r["violated"]))
            else:
                raise ToolError(f"TLC failed on cluster {name} P={P}:\n" + r["out"][-3000:])
    return states, trans, unsound


def response_level_models(pid, tier):
    """RespGame.tla (why the response is forced: every Schnorr equation on its own) and, for the pay proof, DigitBatch.tla
    (every digit pairing equation on its own); each with its spec mutant BATCH = TRUE, which must violate soundness."""
    states = trans = 0
    for P in ([5] if tier == "quick" else [3, 5, 7]):
        r = tlc("RespGame", f"MC_RespGame_P{P}.cfg", workers=2, name=f"{pid}_resp")
        if not r["ok"]:
            raise ToolError("RespGame: " + r["out"][-2000:])
        states += r["distinct"]; trans += r["generated"]
    r = tlc("RespGame", "MC_RespGame_batch.cfg", workers=2, name=f"{pid}_resp")
    if r["ok"] or r["violated"] != "Sound":
        raise ToolError("RespGame with BATCH = TRUE does not violate Sound: the model is vacuous")
    if pid == "C02":
        r = tlc("DigitBatch", "MC_DigitBatch.cfg", workers=2, name=f"{pid}_digit")
        if not r["ok"]:
            raise ToolError("DigitBatch: " + r["out"][-2000:])
        states += r["distinct"]; trans += r["generated"]
        r = tlc("DigitBatch", "MC_DigitBatch_batch.cfg", workers=2, name=f"{pid}_digit")
        if r["ok"] or r["violated"] != "AcceptedOnlySigned":
            raise ToolError("DigitBatch with BATCH = TRUE does not violate AcceptedOnlySigned: the model is vacuous")
    return states, trans


def protocol_consequence(pid, unsound, tier):
    """ZkAbacus.tla with a malicious customer whose proofs the merchant judges by the game verdict: ProofSound is what
    TLC decided for the observed transcript.  Sound: IssuedMatchesLedger / NoDoubleSpend must hold.  Unsound: TLC must
    exhibit the protocol-level consequence (documentation of the finding; the verdict comes from the real forgery)."""
    if not unsound:
        m = tlc_model("MC_ZkAbacus", "MC_ZkAbacus_adv_small.cfg" if tier == "quick" else "MC_ZkAbacus_adv.cfg", workers=8, name=f"mc_{pid}_adv",
                      must_cover=["AdvInit", "AdvPay"])
        return m["distinct"], m["generated"], "holds"
    r1 = tlc("MC_ZkAbacus", "MC_ZkAbacus_adv_unsound.cfg", workers=2, name=f"mc_{pid}_advu")
    r2 = tlc("MC_ZkAbacus", "MC_ZkAbacus_adv_unsound2.cfg", workers=2, name=f"mc_{pid}_advu2")
    return r1["distinct"] + r2["distinct"], r1["generated"] + r2["generated"], f"violated: {r1['violated']}, {r2['violated']}"


def run_strategies(pid, strategies, seed, tag, jobs=1):
    d = os.path.join(WORK, f"{pid}_run")
    os.makedirs(d, exist_ok=True)
    sp, tp = os.path.join(d, f"{tag}.strategies.ndjson"), os.path.join(d, f"{tag}.trace.ndjson")
    with open(sp, "w") as f:
        for s in strategies:
            f.write(json.dumps(s) + "\n")
    if jobs <= 1 or len(strategies) < 2 * jobs:
        harness(["game", "--strategies", sp, "--out", tp, "--seed", seed])
    else:
        import subprocess
        procs = []
        for j in range(jobs):
            part = strategies[j::jobs]
            pj, tj = f"{sp}.{j}", f"{tp}.{j}"
            with open(pj, "w") as f:
                for s in part:
                    f.write(json.dumps(s) + "\n")
            procs.append((subprocess.Popen([BIN, "game", "--strategies", pj, "--out", tj, "--seed", str(seed)],
                                           stdout=subprocess.PIPE, stderr=subprocess.STDOUT, text=True), tj))
        evs = []
        for pr, tj in procs:
            out, _ = pr.communicate(timeout=3600)
            if pr.returncode != 0:
                raise ToolError(f"harness game exited {pr.returncode}:\n{out[-3000:]}")
            evs += [json.loads(l) for l in open(tj)]
        evs.sort(key=lambda e: e.get("id", 0))
        with open(tp, "w") as f:
            for e in evs:
                f.write(json.dumps(e) + "\n")
    events = [json.loads(l) for l in open(tp)]
    for e in events:
        if "error" in e:
            raise ToolError(f"adversarial prover could not run strategy {e.get('id')}: {e['error']}")
    v = validate_trace("Trace_Game", "Trace_Game.cfg", tp, name=f"trace_{pid}_{tag}")
    if not v["accepted"]:
        e = v["next_event"] if isinstance(v["next_event"], dict) else events[v["matched"]]
        st = next((s for s in strategies if s["id"] == e.get("id")), None)
        why = []
        atoms_all = all(e["atoms"].values())
        if e["accepted"] and not e["truth"]:
            why.append("a FALSE statement was accepted")
        if e["accepted"] != atoms_all:
            why.append("verdict differs from the conjunction of the specified relations " +
                       str({k: v_ for k, v_ in e["atoms"].items() if not v_}))
        if e["accepted"] and not all(e["sigs"].values()):
            why.append("returned signatures do not unblind to the hidden tuples " + str(e["sigs"]))
        if not why:
            why.append("verdict differs from the verdict of the proof game for this strategy")
        raise Violation(pid, f"{e['proof']} strategy '{e.get('strategy')}': " + "; ".join(why),
                        {"kind": "game", "property": pid, "seed": seed, "strategy": st, "event": e})
    return events


def check_C01(tier, seed):
    t0 = time.time()
    build_harness()
    d = workdir("C01_run")
    obs_path = os.path.join(d, "observe_establish.json")
    harness(["observe", "--proof", "establish", "--out", obs_path, "--seed", seed])
    obs = json.load(open(obs_path))
    if not obs["honest_accepted"]:
        raise Violation("C01", "the library's own honest establish proof is rejected by initialize",
                        {"kind": "game", "property": "C01", "seed": seed, "strategy": {"proof": "establish", "id": 1, "name": "honest", "hs": ["ok"] * 5, "hc": ["ok"] * 5, "unlink": [], "rev": {}, "sim": [], "rev_delta": {}, "clusters": []}})
    hashed = gs.establish_hashed(obs)
    primes = [5] if tier == "quick" else [3, 5, 7, 11]
    states, trans, unsound = run_game_models("C01", EST_CLUSTERS, hashed, primes)
    ps, pt, pres = protocol_consequence("C01", unsound, tier)
    states += ps; trans += pt
    ps, pt = response_level_models("C01", tier)
    states += ps; trans += pt
    strategies = gs.establish_strategies(hashed, tier)
    events = run_strategies("C01", strategies, seed, "establish")
    forged = [e for e in events if e["accepted"] and not e["truth"]]
    if unsound and not forged:
        raise ToolError(f"TLC reports Sound violated for {unsound} under the observed transcript but no strategy was accepted by the real verifier: model/harness mismatch")
    acc = sum(1 for e in events if e["accepted"])
    classes = {(e["strategy"].split(" slot")[0], tuple(sorted(k for k, v in e["atoms"].items() if not v)), e["accepted"]) for e in events}
    cov = {"states": states, "transitions": trans, "traces_validated_against_impl": len(events),
           "evaluations": len(events), "distinct_nontrivial": len(classes),
           "rule": "one evaluation = one establish proof built by the adversarial prover for a strategy of the catalogue (slot x side x lie x {honest-but-lying, unlinked, "
                   "late revealed scalar, simulated T, simulated C, responses as for the agreed values incl. compensating lies}) and submitted to merchant::Config::initialize; distinct = (strategy family, set of violated relations, verdict)",
           "samples": [{"strategy": e["strategy"], "accepted": e["accepted"], "truth": e["truth"], "violated_relations": [k for k, v in e["atoms"].items() if not v]} for e in events[:3] + events[40:43]],
           "observed_hashed": hashed, "accepted_strategies": acc, "game_primes": primes, "protocol_level_IssuedMatchesLedger_NoDoubleSpend": pres,
           "clusters": [c[0] + ":" + c[1] for c in EST_CLUSTERS], "exhaustive": False,
           "checker_cmd": "tlc MC_Game (Sound Dichotomy Complete per cluster, hashed sets observed) + Trace_Game on adversarial executions"}
    return write_evidence("C01", tier, seed, "model_checking", cov, time.time() - t0, 0,
                          ["A1 algebraic group model, A2 PS unforgeability, A3 random oracle, A4 small-field lemmas transfer (DESIGN.md section 8)",
                           "abstraction of strategies into Z_7 cluster instances (lib/game_strats.py) and the independent relation evaluator (harness/src/indep.rs) are trusted"])


PAY_CLUSTERS = [
    ("pay.cid", "Eq3", "Eq3Cons", "PubB", "None", "None", {"a": "st", "b": "cl", "c": "pt"}, None),
    ("pay.nonce", "Open1", "Open1Cons", "PubB", "RevS", "None", {"a": "pt"}, "nonce"),
    ("pay.tag", "Open1", "Open1Cons", "PubB", "RevS", "None", {"a": "cl"}, "tag"),
    ("pay.oldlock", "Eq2", "Eq2Cons", "PubB", "None", "None", {"a": "rl", "b": "pt"}, None),
    ("pay.newlock", "Eq2", "Eq2Cons", "PubB", "None", "None", {"a": "st", "b": "cl"}, None),
]
PAY_BAL = [
    ("pay.cb", "Bal1", "Bal1NegCons", "PubA", "None", "D1", {"pt": "pt", "st": "st", "cl": "cl", "d1": "cdig"}, None),
    ("pay.mb", "Bal1", "Bal1PosCons", "PubA", "None", "D1", {"pt": "pt", "st": "st", "cl": "cl", "d1": "mdig"}, None),
]
PAY_BAL2 = [
    ("pay.cb2", "Bal2", "Bal2NegCons", "PubA", "None", "D12", {"pt": "pt", "st": "st", "cl": "cl", "d1": "cdig", "d2": "cdig"}, None),
]


def check_C02(tier, seed):
    t0 = time.time()
    build_harness()
    d = workdir("C02_run")
    obs_path = os.path.join(d, "observe_pay.json")
    harness(["observe", "--proof", "pay", "--out", obs_path, "--seed", seed])
    obs = json.load(open(obs_path))
    if not obs["honest_accepted"]:
        raise Violation("C02", "the library's own honest pay proof is rejected by allow_payment",
                        {"kind": "game", "property": "C02", "seed": seed, "strategy": gs.pay_strategies(gs.pay_hashed(obs), "quick")[0]})
    hashed = gs.pay_hashed(obs)
    q = tier == "quick"
    states, trans, unsound = run_game_models("C02", PAY_CLUSTERS, hashed, [5] if q else [3, 5, 7, 11])
    s2, t2, u2 = run_game_models("C02b", PAY_BAL, hashed, [3] if q else [3, 5], workers=12)
    states += s2; trans += t2; unsound += u2
    if not q:
        s3, t3, u3 = run_game_models("C02c", PAY_BAL2, hashed, [5], workers=14)
        states += s3; trans += t3; unsound += u3
    ps, pt, pres = protocol_consequence("C02", unsound, tier)
    states += ps; trans += pt
    ps, pt = response_level_models("C02", tier)
    states += ps; trans += pt
    strategies = gs.pay_strategies(hashed, tier)
    events = run_strategies("C02", strategies, seed, "pay", jobs=8)
    forged = [e for e in events if e["accepted"] and not e["truth"]]
    if unsound and not forged:
        raise ToolError(f"TLC reports Sound violated for {unsound} under the observed transcript but no strategy was accepted by the real verifier: model/harness mismatch")
    classes = {(e["strategy"].split(",")[0], tuple(sorted(k for k, v in e["atoms"].items() if not v)), e["accepted"]) for e in events}
    cov = {"states": states, "transitions": trans, "traces_validated_against_impl": len(events),
           "evaluations": len(events), "distinct_nontrivial": len(classes),
           "rule": "one evaluation = one pay proof built by the adversarial prover on a real pay token for a strategy of the catalogue (every false variant of the statement x "
                   "{honest-but-lying, unlinked, late revealed scalar, simulated T, simulated C, responses as for the agreed values incl. compensating lies}, a digit-level range prover "
                   "with foreign-key and cooperating forged digit signatures, tampered tokens) and submitted to merchant::Config::allow_payment; "
                   "distinct = (strategy family, set of violated relations, verdict)",
           "samples": [{"strategy": e["strategy"], "accepted": e["accepted"], "truth": e["truth"], "violated_relations": [k for k, v in e["atoms"].items() if not v]} for e in events[:2] + events[8:12]],
           "observed_hashed": {k: hashed[k] for k in ("rev", "C", "T")}, "unhashed_atoms": hashed["other_unhashed"], "protocol_level_IssuedMatchesLedger_NoDoubleSpend": pres,
           "accepted_strategies": sum(1 for e in events if e["accepted"]), "exhaustive": False,
           "checker_cmd": "tlc MC_Game (Sound Dichotomy Complete InRange per cluster, hashed sets observed) + Trace_Game on adversarial executions"}
    return write_evidence("C02", tier, seed, "model_checking", cov, time.time() - t0, 0,
                          ["A1 algebraic group model, A2 PS unforgeability (pay token and digit signatures), A3 random oracle, A4 small-field lemmas transfer (DESIGN.md section 8)",
                           "balance cluster checked with L = 1 digit (quick) / L = 2 (thorough), radix 2, instead of 9 digits radix 128",
                           "abstraction of strategies into Z_7 cluster instances (lib/game_strats.py) and the independent relation evaluator (harness/src/indep.rs) are trusted"])


def replay_game(pid, p):
    st = p["strategy"]
    run_strategies(pid, [st], p["seed"], "replay")


REGISTRY = {"C01": check_C01, "C02": check_C02}
REPLAY = {"game": replay_game}
