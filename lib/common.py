"""Shared plumbing for /verif/bin/check: paths, process running, harness build, TLC runs,
trace validation, evidence and findings handling."""
import json, os, re, shutil, subprocess, sys, time, hashlib

VERIF = os.path.dirname(os.path.dirname(os.path.abspath(__file__)))
SPEC = os.path.join(VERIF, "spec")
HARNESS = os.path.join(VERIF, "harness")
WORK = os.path.join(VERIF, "work")
EVID = os.path.join(VERIF, "evidence")
REPLAYS = os.path.join(VERIF, "replays")
BIN = os.path.join(HARNESS, "target", "release", "zkverif")


class ToolError(Exception):
    """The machinery itself failed (build, TLC crash, timeout): exit 2, never a violation."""


def sh(cmd, cwd=None, env=None, timeout=None, check=False):
    e = dict(os.environ)
    if env:
        e.update(env)
    try:
        p = subprocess.run(cmd, cwd=cwd, env=e, stdout=subprocess.PIPE, stderr=subprocess.STDOUT,
                           text=True, timeout=timeout, errors="replace")
    except subprocess.TimeoutExpired as ex:
        raise ToolError(f"timeout after {timeout}s: {' '.join(cmd)[:200]}\n{(ex.stdout or '')[-2000:]}")
    if check and p.returncode != 0:
        raise ToolError(f"command failed ({p.returncode}): {' '.join(cmd)[:300]}\n{p.stdout[-4000:]}")
    return p.returncode, p.stdout


def workdir(name):
    d = os.path.join(WORK, name)
    shutil.rmtree(d, ignore_errors=True)
    os.makedirs(d, exist_ok=True)
    return d


def build_harness():
    """(Re)build the harness against /repo's current working tree (path dependencies)."""
    env = {"CARGO_NET_OFFLINE": "true"}
    rc, out = sh(["cargo", "build", "--release", "--offline"], cwd=HARNESS, env=env, timeout=1800)
    if rc != 0:
        # a harness that no longer compiles against the tree is a tool error, not a violation
        raise ToolError("harness build failed:\n" + out[-6000:])
    return BIN


def harness(args, timeout=3600):
    rc, out = sh([BIN] + [str(a) for a in args], timeout=timeout)
    if rc != 0:
        raise ToolError(f"harness {' '.join(map(str, args))[:200]} exited {rc}:\n{out[-4000:]}")
    return out


# ----------------------------------------------------------------------------- TLC

JAVA_TRACE_OPTS = "-Xss1g -Dtlc2.tool.queue.IStateQueue=StateDeque"


def tlc(module, cfg, workers=8, extra=None, env=None, timeout=1800, name=None, heap="8g"):
    """Run TLC on spec/<module>.tla with spec/<cfg>; returns dict(ok, out, generated, distinct, depth, violated)."""
    meta = workdir("tlc_" + (name or module))
    cmd = ["java", "-XX:+UseParallelGC", f"-Xmx{heap}", "-cp",
           "/opt/veriftools/tla/tla2tools.jar:/opt/veriftools/tla/CommunityModules-deps.jar",
           "tlc2.TLC", "-workers", str(workers), "-noGenerateSpecTE", "-metadir", meta, "-cleanup",
           "-config", cfg] + (extra or []) + [module + ".tla"]
    rc, out = sh(cmd, cwd=SPEC, env=env, timeout=timeout)
    shutil.rmtree(meta, ignore_errors=True)
    res = {"rc": rc, "out": out, "generated": 0, "distinct": 0, "depth": 0, "violated": None}
    m = re.search(r"(\d+) states generated, (\d+) distinct states found", out)
    if m:
        res["generated"], res["distinct"] = int(m.group(1)), int(m.group(2))
    m = re.search(r"depth of the complete state graph search is (\d+)", out)
    if m:
        res["depth"] = int(m.group(1))
    m = re.search(r"Invariant (\S+) is violated", out)
    if m:
        res["violated"] = m.group(1)
    m = re.search(r"Action property (\S+) is violated|Temporal properties were violated", out)
    if m and not res["violated"]:
        res["violated"] = m.group(1) or "temporal"
    res["ok"] = (rc == 0 and "Model checking completed. No error has been found." in out) or \
                (rc == 0 and "-simulate" in " ".join(extra or []))
    if not res["ok"] and res["violated"] is None and "Postcondition" not in out and "is false" not in out:
        if "Error:" in out or rc != 0:
            res["toolerror"] = True
    return res


def tlc_model(module, cfg, workers=8, timeout=1800, coverage=True, name=None, must_cover=None):
    """Model-check; raise ToolError unless it completes without error. Returns stats + per-action coverage."""
    extra = ["-coverage", "1"] if coverage else []
    r = tlc(module, cfg, workers=workers, extra=extra, timeout=timeout, name=name)
    if not r["ok"]:
        raise ModelViolation(module, cfg, r)
    cov = {}
    for m in re.finditer(r"^<(\w+) line \d+, col \d+ to line \d+, col \d+ of module (\w+)(?: \([\d ]+\))?>: (\d+):(\d+)", r["out"], re.M):
        cov[m.group(1)] = cov.get(m.group(1), 0) + int(m.group(4))
    # `\E r \in wire : Replay(ch, r)` ranges over a state-dependent set, so TLC reports it under "Next"
    if "ReplayOf" in cov:
        cov["Replay"] = cov["ReplayOf"]
    r["coverage"] = cov
    if must_cover:
        missing = [a for a in must_cover if cov.get(a, 0) == 0]
        if missing:
            raise ToolError(f"vacuity: actions never taken in {module}/{cfg}: {missing}")
    return r


class ModelViolation(Exception):
    def __init__(self, module, cfg, r):
        super().__init__(f"TLC reports an error for {module} / {cfg}")
        self.module, self.cfg, self.r = module, cfg, r


def tlc_simulate_steps(module, cfg, num, depth, seed, timeout=600, name=None, siblings=2):
    """Run TLC in simulation mode on an export module (history variable `hist`, constant XDepth,
    invariant Emit printing <<"WALK", json>> at the final level).  Returns a list of walks, each a
    list of step records.  TLC prints every candidate successor of the last step, so walks come in
    groups of siblings that share all but the last step; at most `siblings` per group are kept."""
    text = open(os.path.join(SPEC, cfg)).read()
    text = re.sub(r"XDepth = \d+", f"XDepth = {depth}", text)
    d = workdir("cfg_" + (name or module))
    cfgp = os.path.join(d, cfg)
    open(cfgp, "w").write(text)
    r = tlc(module, cfgp, workers=1, extra=["-simulate", f"num={num}", "-depth", str(depth + 1), "-seed", str(seed)],
            timeout=timeout, name=name)
    if "is violated" in r["out"]:
        raise ModelViolation(module, cfg, r)
    groups = {}
    for line in r["out"].splitlines():
        m = re.match(r'<<"WALK", "(.*)">>$', line)
        if not m:
            continue
        w = json.loads(bytes(m.group(1), "utf-8").decode("unicode_escape"))
        key = json.dumps(w[:-1], sort_keys=True)
        groups.setdefault(key, []).append(w)
    if not groups:
        raise ToolError("TLC simulation produced no walks:\n" + r["out"][-3000:])
    walks = []
    for g in groups.values():
        walks.append(g[0])
        if siblings > 1 and len(g) > 1:
            walks.append(g[-1])
    return walks


def validate_trace(trace_module, cfg, trace_path, timeout=1800, name=None):
    """Validate an ndjson trace against a Trace_* spec. Returns dict(accepted, matched, total, next_event, out)."""
    with open(trace_path) as f:
        total = sum(1 for l in f if l.strip())
    r = tlc(trace_module, cfg, workers=1, env={"TRACE": trace_path, "JAVA_TOOL_OPTIONS": JAVA_TRACE_OPTS},
            timeout=timeout, name=name or trace_module, heap="6g")
    out = r["out"]
    res = {"accepted": False, "matched": 0, "total": total, "next_event": None, "out": out,
           "states": r["distinct"], "generated": r["generated"], "violated": r["violated"]}
    m = re.search(r'"TRACE_MISMATCH",\s*"matched",\s*(\d+),\s*"of",\s*(\d+),\s*"next_event",\s*"(.*)"\s*>>', out)
    if m:
        res["matched"] = int(m.group(1))
        try:
            res["next_event"] = json.loads(bytes(m.group(3), "utf-8").decode("unicode_escape"))
        except Exception:
            res["next_event"] = m.group(3)[:500]
        return res
    if r["violated"]:
        # an invariant / action property of the main spec failed on a trace state
        res["matched"] = max(0, r["depth"] - 1) if r["depth"] else 0
        return res
    if r["rc"] == 0 and "No error has been found" in out:
        res["accepted"] = True
        res["matched"] = total
        return res
    # TLC could not evaluate the trace spec on an event (e.g. a field the event should carry is missing
    # because the implementation took an unexpected path): the event is not explained by the specification
    if re.search(r"nonexistent field|Attempted to (select|access|apply|check|compare)", out):
        res["matched"] = max(0, r["generated"] - 1) if r["generated"] else 0
        res["violated"] = "evaluation error on the event (unexpected shape)"
        return res
    raise ToolError("trace validation did not complete:\n" + out[-4000:])


def apalache_inductive(module_path, init, ind_init, inv, timeout=900):
    """inductive invariant with Apalache (unbounded integers): Init => Inv, and Inv /\\ Next => Inv'"""
    d = os.path.dirname(module_path)
    out = workdir("apalache")
    for args in (["--init=" + init, "--inv=" + inv, "--length=0"], ["--init=" + ind_init, "--inv=" + inv, "--length=1"]):
        rc, o = sh(["apalache-mc", "check", "--out-dir=" + out] + args + [os.path.basename(module_path)], cwd=d, timeout=timeout)
        if "EXITCODE: OK" not in o:
            return False, o[-1500:]
    return True, ""


# ----------------------------------------------------------------------------- evidence / findings

def write_evidence(pid, tier, seed, level, coverage, wall_s, violations=0, assumptions=None):
    os.makedirs(EVID, exist_ok=True)
    ev = {"property_id": pid, "tier": tier, "seed": int(seed), "level": level, "coverage": coverage,
          "assumptions": assumptions or [], "wall_s": round(wall_s, 2), "violations": violations}
    with open(os.path.join(EVID, pid + ".json"), "w") as f:
        json.dump(ev, f, indent=1, sort_keys=True)
    return ev


def load_findings():
    p = os.path.join(VERIF, "known_findings.json")
    if not os.path.exists(p):
        return {"known": [], "fixed": []}
    return json.load(open(p))


def write_replay(pid, payload):
    os.makedirs(REPLAYS, exist_ok=True)
    blob = json.dumps(payload, sort_keys=True, indent=1)
    h = hashlib.sha256(blob.encode()).hexdigest()[:12]
    path = os.path.join(REPLAYS, f"{pid}-{h}.json")
    with open(path, "w") as f:
        f.write(blob)
    return path


class Violation(Exception):
    def __init__(self, pid, what, payload):
        super().__init__(what)
        self.pid, self.what, self.payload = pid, what, payload
