"""Checks decided on ZkAbacus.tla (protocol layer): C03, C04, C05, C20 (and the protocol part of C06/C18).

Each check = (M) TLC model checking of the bounded protocol model, (R) behaviours of the model
(TLC simulation walks) replayed into the real code, (T) traces of the real code (the replays and
the random / boundary-directed driver) validated by TLC against Trace_ZkAbacus.tla with every
invariant of the main specification evaluated at every trace state."""
import json, os, random, time
from common import *
import protodrv

MODEL_ACTIONS = ["Request", "Deliver", "Fault", "Replay", "Start", "Close", "Restore", "MInit", "MActivate",
                 "MAllow", "MComplete", "WrongRev"]
SCALE_BIG = (2**63 - 1) // 7      # 7 divides 2^63-1: the model's MaxBal = 7 maps exactly onto i64::MAX


def write_script(path, lines):
    with open(path, "w") as f:
        for l in lines:
            f.write(json.dumps(l) + "\n")


def classes_of_trace(trace_path):
    """distinct (stage-after, event, how/kind, outcome) classes and a few sample events"""
    cls, n, samples = set(), 0, []
    for line in open(trace_path):
        e = json.loads(line)
        if e.get("ev") == "reset":
            continue
        n += 1
        out = e.get("out", "")
        cls.add((e.get("stage", ""), e["ev"], e.get("how", ""), out.split(":")[0]))
        if len(samples) < 6 and (e["ev"] in ("receive", "start", "mcomplete", "close")) and n % 7 == 0:
            samples.append({k: e[k] for k in e if k not in ("probe",)})
    return cls, n, samples


def run_scripts(pid, tag, lines, seed, cfg):
    """execute a script against the real code and validate the trace; raises Violation on rejection"""
    d = os.path.join(WORK, f"{pid}_run")
    os.makedirs(d, exist_ok=True)
    sp, tp = os.path.join(d, f"{tag}.script.ndjson"), os.path.join(d, f"{tag}.trace.ndjson")
    write_script(sp, lines)
    harness(["proto", "--script", sp, "--out", tp, "--seed", seed])
    v = validate_trace("Trace_ZkAbacus", cfg, tp, name=f"trace_{pid}_{tag}")
    if not v["accepted"]:
        ne = v["next_event"]
        if isinstance(ne, dict) and str(ne.get("out", "")).startswith("skip:"):
            raise ToolError(f"driver/model mismatch (not a violation): first unmatched event is a skipped action: {ne}")
        events = [json.loads(l) for l in open(tp)]
        # cut the script to the run (reset..mismatch) that contains the rejected event
        raise Violation(pid, f"trace of the implementation rejected by Trace_ZkAbacus at event {v['matched'] + 1}"
                             f" ({'invariant ' + v['violated'] if v['violated'] else 'no spec action explains it'})",
                        {"kind": "proto", "property": pid, "seed": seed, "cfg": cfg, "script": lines,
                         "matched": v["matched"], "violated": v["violated"], "rejected_event": ne,
                         "context_events": events[max(0, v["matched"] - 3): v["matched"] + 1]})
    cls, n, samples = classes_of_trace(tp)
    return {"events": n, "classes": cls, "samples": samples, "states": v["states"]}


def boundary_histories():
    """fixed honest histories at the boundaries: zero-amount payments (also at zero balances), whole balances either way,
    a merchant-funded channel, initial balances whose sum exceeds 2^63-1, the full capacity moved at once"""
    I = 2**63 - 1
    def est(cb, mb):
        return [{"act": "reset"}, {"act": "request", "ch": 1, "cb": str(cb), "mb": str(mb)}, {"act": "minit", "ch": 1}, {"act": "deliver", "ch": 1},
                {"act": "mactivate", "ch": 1}, {"act": "deliver", "ch": 1}]
    def pay(a):
        return [{"act": "start", "ch": 1, "amt": str(a)}, {"act": "mallow", "ch": 1}, {"act": "deliver", "ch": 1}, {"act": "mcomplete", "ch": 1}, {"act": "deliver", "ch": 1}]
    def seq(cb, mb, amounts):
        out = est(cb, mb)
        for a in amounts:
            if 0 <= cb - a <= I and 0 <= mb + a <= I:
                out += pay(a)
                cb, mb = cb - a, mb + a
            else:
                out += pay(a)[:1]          # the start is refused: nothing follows
        return out + [{"act": "close", "ch": 1}]
    return (seq(50, 5, [0, 4, 0, 0, -3, 49, 0, -55, 0, 55, -1])
            + seq(0, 7, [0, -7, 0, 7, 0])
            + seq(I, I, [0, 1, -1, I, -I])
            + seq(I, 1, [0, I, -I, -1])
            + seq(0, 0, [0, 0])
            + seq(1, I, [1, 0, -I])
            # the whole capacity 2^63-1 moved in one payment, both ways (accepted amounts of magnitude exactly 2^63-1)
            + seq(I, 0, [I, -I, I, 0])
            + seq(0, I, [-I, I, -I, 0, -1]))


def campaign(pid, tier, seed, model_cfg, sim_cfg, sim_num, sim_depth, scales, drv_runs, drv_steps, drv_kwargs,
             trace_cfg="Trace_ZkAbacus_notwin.cfg", drop_restore=True, must_cover=None, workers=8):
    t0 = time.time()
    build_harness()
    # (M) model checking
    m = tlc_model("MC_ZkAbacus", model_cfg, workers=workers, name=f"mc_{pid}", must_cover=must_cover or MODEL_ACTIONS)
    total_events, classes, samples, nruns = 0, set(), [], 0
    # (R) behaviours of the specification replayed into the implementation
    walks = tlc_simulate_steps("MCX_ZkAbacus", sim_cfg, sim_num, sim_depth, seed, name=f"sim_{pid}")
    for sc in scales:
        lines = protodrv.scripts_from_walks(walks, sc)
        if drop_restore:
            lines = [l for l in lines if l["act"] != "restore"]
        r = run_scripts(pid, f"walks_x{1 if sc == 1 else 'big'}", lines, seed, trace_cfg)
        total_events += r["events"]; classes |= r["classes"]; samples += r["samples"][:2]; nruns += len(walks)
    # (T) random / boundary-directed driver
    rng = random.Random(seed * 1000003 + 17)
    lines = []
    for i in range(drv_runs):
        kw = dict(drv_kwargs)
        kw["big"] = kw.get("big", False) or (i % 2 == 1)
        d = protodrv.RandomDriver(rng, **kw)
        lines += d.run(drv_steps)
    lines += boundary_histories()
    if drop_restore:
        lines = [l for l in lines if l["act"] != "restore"]
    if lines:
        r = run_scripts(pid, "driver", lines, seed, trace_cfg)
        total_events += r["events"]; classes |= r["classes"]; samples += r["samples"][:3]; nruns += drv_runs
    return {"model": m, "events": total_events, "classes": classes, "samples": samples, "runs": nruns,
            "wall": time.time() - t0, "walks": len(walks)}


def cover_campaign(pid, seed, trace_cfg, jobs=8, drop_restore=False):
    """every transition of the reachable state graph of MC_ZkAbacus_cover.cfg executed on the real code at least once"""
    import graphcover, subprocess
    d = os.path.join(WORK, f"{pid}_cover")
    os.makedirs(d, exist_ok=True)
    dot = os.path.join(d, "cover.dot")
    r = tlc("MC_ZkAbacus", "MC_ZkAbacus_cover.cfg", workers=8, extra=["-dump", "dot,actionlabels", dot], name=f"dump_{pid}", timeout=3600)
    if not r["ok"]:
        raise ModelViolation("MC_ZkAbacus", "MC_ZkAbacus_cover.cfg", r)
    runs, nedges = graphcover.scripts(dot, SCALE_BIG)
    os.remove(dot)
    parts = [[] for _ in range(jobs)]
    for i, run in enumerate(runs):
        lines = [l for l in run if not (drop_restore and l["act"] == "restore")]
        parts[i % jobs] += lines
    procs = []
    for j, lines in enumerate(parts):
        sp, tp = os.path.join(d, f"cover{j}.script.ndjson"), os.path.join(d, f"cover{j}.trace.ndjson")
        write_script(sp, lines)
        procs.append((subprocess.Popen([BIN, "proto", "--script", sp, "--out", tp, "--seed", str(seed + j)], stdout=subprocess.PIPE, stderr=subprocess.STDOUT, text=True), sp, tp, lines))
    total = 0
    classes = set()
    for pr, sp, tp, lines in procs:
        out, _ = pr.communicate(timeout=7200)
        if pr.returncode != 0:
            raise ToolError(f"harness proto (cover) exited {pr.returncode}:\n{out[-2000:]}")
    # validate the traces (sequentially: each validation is linear and takes seconds)
    for j, (pr, sp, tp, lines) in enumerate(procs):
        v = validate_trace("Trace_ZkAbacus", trace_cfg, tp, name=f"trace_{pid}_cover{j}", timeout=3600)
        if not v["accepted"]:
            ne = v["next_event"]
            if isinstance(ne, dict) and str(ne.get("out", "")).startswith("skip:"):
                raise ToolError(f"driver/model mismatch (not a violation): first unmatched event is a skipped action: {ne}")
            events = [json.loads(l) for l in open(tp)]
            # cut the script down to the run that contains the rejected event
            idx = v["matched"]
            start = max(i for i in range(idx + 1) if events[i].get("ev") == "reset")
            nres = sum(1 for e in events[:start + 1] if e.get("ev") == "reset")
            cut, seen = [], 0
            for l in lines:
                if l["act"] == "reset":
                    seen += 1
                if seen == nres:
                    cut.append(l)
                elif seen > nres:
                    break
            raise Violation(pid, f"edge-cover run rejected by Trace_ZkAbacus at event {idx + 1} ({'invariant ' + str(v['violated']) if v['violated'] else 'no spec action explains it'})",
                            {"kind": "proto", "property": pid, "seed": seed + j, "cfg": trace_cfg, "script": cut, "matched": idx, "rejected_event": ne,
                             "note": "script cut to the run containing the rejected event; world seeds differ from the original run"})
        cls, n, _ = classes_of_trace(tp)
        total += n
        classes |= cls
    return {"edges": nedges, "runs": len(runs), "events": total, "classes": classes, "states": r["distinct"]}


def evidence_from(pid, tier, seed, c, rule, assumptions, extra=None):
    cov = {"states": c["model"]["distinct"], "transitions": c["model"]["generated"],
           "traces_validated_against_impl": c["runs"],
           "evaluations": c["events"], "distinct_nontrivial": len(c["classes"]),
           "rule": rule, "samples": c["samples"][:8] or [{"note": "no sample"}],
           "model_action_coverage": c["model"].get("coverage", {}),
           "transition_classes": sorted("|".join(x) for x in c["classes"]),
           "exhaustive": False}
    if extra:
        cov.update(extra)
    return write_evidence(pid, tier, seed, "model_checking", cov, c["wall"], 0, assumptions)


ASSUME = ["symbolic (Dolev-Yao) treatment of signatures / blinding in ZkAbacus.tla, justified by PSig.tla and ProofGame.tla",
          "bounded model: constants in the cfg named in checker_cmd; beyond them only random traces",
          "bincode copy of the customer stage used for the close probe (cross-checked by C20)",
          "bls12_381, sha3, bincode, serde correct"]


def check_C03(tier, seed):
    q = tier == "quick"
    c = campaign("C03", tier, seed, "MC_ZkAbacus_quick.cfg" if q else "MC_ZkAbacus_thorough.cfg", "MCX_ZkAbacus_sim.cfg",
                 sim_num=10 if q else 60, sim_depth=45 if q else 70, scales=[SCALE_BIG],
                 drv_runs=6 if q else 40, drv_steps=70 if q else 120,
                 drv_kwargs=dict(w_fault=2.5, w_close=0.25, w_restore=0.0, w_replay=1.0, max_pays=4))
    extra = {"checker_cmd": "tlc MC_ZkAbacus (invariants CanClose HeldSigsValid ClosedOnUnrevoked + dispute outcomes DisputeCustomerSafe DisputeWindow DisputePunishOld "
                            "DisputeOutcomeConserves MerchantPayoffBound; properties RefusedIsInert ReleaseOnlyOnAccept FaultRefused ReplayRefused OutcomeOnlyByCustomer) "
                            "+ Trace_ZkAbacus on harness traces (same invariants at every event)"}
    # dispute outcomes: with an unsound pay proof (double spend) the merchant-side outcome statements must fail (non-vacuity)
    for cfg, inv in (("MC_ZkAbacus_dispute_unsound.cfg", "DisputePunishOld"), ("MC_ZkAbacus_dispute_unsound2.cfg", "MerchantPayoffBound")):
        r = tlc("MC_ZkAbacus", cfg, workers=2, name="mc_C03_dispute_mut")
        if r["ok"] or r["violated"] != inv:
            raise ToolError(f"ZkAbacus with ProofSound = FALSE does not violate {inv}: the dispute-outcome statements are vacuous")
    extra["spec_mutants_must_fail"] = ["MC_ZkAbacus_dispute_unsound.cfg (DisputePunishOld)", "MC_ZkAbacus_dispute_unsound2.cfg (MerchantPayoffBound)"]
    if not q:
        cc = cover_campaign("C03", seed, "Trace_ZkAbacus_notwin.cfg", drop_restore=True)
        c["events"] += cc["events"]; c["classes"] |= cc["classes"]; c["runs"] += cc["runs"]; c["wall"] = c["wall"]
        extra.update({"edge_cover": {"model": "MC_ZkAbacus_cover.cfg (1 channel, MaxBal 7 at the exact 64-bit scale, 6 initial pairs, amounts -7..7, 2 payments, 9 fault kinds, 4 wrong-revocation kinds)",
                                     "abstract_states": cc["states"], "transitions_covered": cc["edges"], "runs": cc["runs"], "events_executed": cc["events"]},
                      "exhaustive": True})
    return evidence_from("C03", tier, seed, c,
        "events = API calls executed on the real customer/merchant (script steps from TLC simulation walks of ZkAbacus.tla and from the weighted random driver, "
        "every fault kind at every reply point, closes from every stage) and accepted by TLC against Trace_ZkAbacus.tla with CanClose, RefusedIsInert, "
        "ReleaseOnlyOnAccept, ClosedOnUnrevoked evaluated at every event; distinct = (stage, event, fault/how, outcome) classes observed",
        ASSUME, extra)


def check_C04(tier, seed):
    q = tier == "quick"
    c = campaign("C04", tier, seed, "MC_ZkAbacus_honest.cfg", "MCX_ZkAbacus_honest.cfg",
                 sim_num=6 if q else 40, sim_depth=40 if q else 60, scales=[SCALE_BIG],
                 drv_runs=6 if q else 60, drv_steps=60 if q else 120,
                 drv_kwargs=dict(faults=[], revkinds=[], w_fault=0.0, w_close=0.03, w_restore=0.0, w_replay=0.0, max_pays=12, big=True),
                 must_cover=["Request", "Deliver", "Start", "MInit", "MActivate", "MAllow", "MComplete"])
    return evidence_from("C04", tier, seed, c,
        "honest runs only: initial balances and amounts from the boundary lattice relative to the current balances (0, +-1, +-bal, +-(bal+1), +-(2^63-1), "
        "128^k+-1, random) at scale 1 and at the exact scale (2^63-1)/7; every stage getter and closing message compared by TLC with Ledger.tla limb arithmetic; "
        "refused starts must carry a justified error, produce no message and leave the state unchanged; distinct = (stage, event, outcome) classes",
        ASSUME, {"checker_cmd": "tlc MC_ZkAbacus_honest (Conservation LedgerShape HonestAccepted RefusedStartInert + liveness EventuallySettled) + Trace_ZkAbacus on harness traces"})


def check_C05(tier, seed):
    q = tier == "quick"
    t0 = time.time()
    c = campaign("C05", tier, seed, "MC_ZkAbacus_quick.cfg", "MCX_ZkAbacus_rev.cfg",
                 sim_num=8 if q else 40, sim_depth=45 if q else 70, scales=[SCALE_BIG],
                 drv_runs=4 if q else 30, drv_steps=80 if q else 120,
                 drv_kwargs=dict(faults=[], w_fault=0.0, w_close=0.02, w_restore=0.0, w_replay=0.0, max_pays=5))
    # revocation pairs: model of generation / decoding + real pairs validated against it
    m2 = tlc_model("RevPair", "MC_RevPair.cfg", workers=4, name="mc_revpair", must_cover=["GenStep", "Decode"])
    d = os.path.join(WORK, "C05_run")
    tp = os.path.join(d, "revpair.trace.ndjson")
    harness(["revpair", "--out", tp, "--seed", seed, "--n", 60 if q else 2000])
    v = validate_trace("Trace_RevPair", "Trace_RevPair.cfg", tp, name="trace_C05_revpair")
    events = [json.loads(l) for l in open(tp)]
    if not v["accepted"]:
        e = events[v["matched"]]
        raise Violation("C05", f"revocation pair event rejected by Trace_RevPair: case '{e.get('case', 'generation')}' out={e.get('out')}",
                        {"kind": "revpair", "property": "C05", "seed": seed, "event": e, "n": 60 if q else 2000})
    mc = [e for e in events if e["ev"] == "mcomplete"]
    c["model"]["distinct"] += m2["distinct"]; c["model"]["generated"] += m2["generated"]
    c["events"] += len(events); c["runs"] += 1
    c["classes"] |= {("revpair", e["ev"], e.get("case", ""), e["out"]) for e in events}
    c["samples"] = [e for e in events if e["ev"] == "pairdecode"][:3] + c["samples"]
    c["wall"] = time.time() - t0
    return evidence_from("C05", tier, seed, c,
        "protocol part: every accepted payment of TLC walks / random runs is completed with wrong revocation candidates (pair of the new state, right pair + wrong blinding factor, "
        "foreign pair, both wrong; repeated with identical material) before the right one, TLC checks token issued iff the candidate opens the commitment and the pending payment is unchanged on refusal; "
        "pair part: pairs generated under chosen secrets (incl. secrets whose digest has the modulus' top byte but is not canonical) and decoded byte strings (valid, lock / secret / index altered, "
        "non-canonical digest offered reduced and raw, random) with digest, canonicity and equality recomputed independently; distinct = event classes",
        ASSUME, {"checker_cmd": "tlc MC_ZkAbacus (TokenIffOpens TokenOnlyAfterRevocation) + tlc RevPair (GeneratedWellFormed FirstCanonical DecodeExact Terminates) + Trace_ZkAbacus + Trace_RevPair"})


def check_C14(tier, seed):
    """histories (TLC walks + random driver incl. refused replies and closes from every stage) executed on the real code;
    the atoms of every message are validated against Trace_Atoms.tla"""
    q = tier == "quick"
    t0 = time.time()
    build_harness()
    m = tlc_model("AtomFlow", "MC_AtomFlow.cfg", workers=4, name="mc_atomflow", must_cover=["Establish", "Pay", "Lock", "Close"])
    # spec mutant: without re-randomisation NoReuse must fail (non-vacuity of the model)
    r = tlc("AtomFlow", "MC_AtomFlow_norerand.cfg", workers=2, name="mc_atomflow_mut")
    if r["ok"] or r["violated"] != "NoReuse":
        raise ToolError("AtomFlow with RERANDOMIZE = FALSE does not violate NoReuse: the model is vacuous")
    r = tlc("AtomFlow", "MC_AtomFlow_leak.cfg", workers=2, name="mc_atomflow_mut2")
    if r["ok"] or r["violated"] != "NoSecretLeak":
        raise ToolError("AtomFlow with LEAK = TRUE does not violate NoSecretLeak: the model is vacuous")
    r = tlc("AtomFlow", "MC_AtomFlow_keepnonce.cfg", workers=2, name="mc_atomflow_mut3")
    if r["ok"] or r["violated"] != "NoReuse":
        raise ToolError("AtomFlow with KEEPNONCE = TRUE does not violate NoReuse: the model is vacuous")
    # the commitment-scalar space: Hiding.tla (must fail for the two spec mutants) and the space observed from the real prover
    mh = tlc_model("Hiding", "MC_Hiding.cfg", workers=2, name="mc_hiding", coverage=False)
    for cfg, what in (("MC_Hiding_sharelock.cfg", "SHARE_LOCK"), ("MC_Hiding_digitshares.cfg", "DIGIT_SHARES")):
        r = tlc("Hiding", cfg, workers=2, name="mc_hiding_mut")
        if r["ok"] or r["violated"] != "Hiding":
            raise ToolError(f"Hiding.tla with {what} = TRUE does not violate Hiding: the model is vacuous")
    dh = os.path.join(WORK, "C14_run")
    os.makedirs(dh, exist_ok=True)
    hp = os.path.join(dh, "hiding.trace.ndjson")
    harness(["hiding", "--out", hp, "--seed", seed, "--tier", tier])
    vh = validate_trace("Trace_Hiding", "Trace_Hiding.cfg", hp, name="trace_C14_hiding")
    hev = [json.loads(l) for l in open(hp)]
    if not vh["accepted"]:
        e = hev[vh["matched"]]
        want = 6 if e["proof"] == "establish" else 24
        raise Violation("C14", f"commitment scalars of the {e['proof']} proof: designed links hold = {e['links_hold']}, the recovered commitment-scalar vectors span a space of "
                               f"dimension {e['rank']} instead of {want} ({e['samples']} honest proofs, {e['slots']} response slots): a scalar is shared, fixed or derived beyond the "
                               f"designed links, so hidden values can be derived from the responses (Hiding.tla)",
                        {"kind": "hiding", "property": "C14", "seed": seed, "event": e})
    walks = tlc_simulate_steps("MCX_ZkAbacus", "MCX_ZkAbacus_sim.cfg", 6 if q else 40, 45 if q else 70, seed, name="sim_C14")
    lines = protodrv.scripts_from_walks(walks, SCALE_BIG)
    rng = random.Random(seed * 7 + 3)
    for i in range(8 if q else 60):
        d = protodrv.RandomDriver(rng, channels=(1, 2, 3), w_fault=1.0, w_close=0.5 if i % 2 else 0.1, w_restore=0.0, w_replay=0.5, max_pays=4,
                                  faults=["garbage", "altbal", "wrongbf", "otherkey"])
        lines += d.run(60 if q else 110)
    lines = [l for l in lines if l["act"] != "restore"]
    # chosen randomness: a close whose re-randomiser is drawn as zero (one per run: the library then shows the
    # all-identity signature, which must not have been seen before either)
    est = [{"act": "request", "ch": 1, "cb": "50", "mb": "5"}, {"act": "minit", "ch": 1}, {"act": "deliver", "ch": 1}, {"act": "mactivate", "ch": 1}, {"act": "deliver", "ch": 1}]
    pay = [{"act": "start", "ch": 1, "amt": "4"}, {"act": "mallow", "ch": 1}, {"act": "deliver", "ch": 1}, {"act": "mcomplete", "ch": 1}, {"act": "deliver", "ch": 1}]
    lines += [{"act": "reset"}] + est + [{"act": "close", "ch": 1, "zero_rng": True}]
    lines += [{"act": "reset"}] + est + pay + [{"act": "start", "ch": 1, "amt": "1"}, {"act": "close", "ch": 1, "zero_rng": True}]
    # boundary amounts in a fixed history: zero-amount payments between ordinary ones, the whole balance either way
    def payn(a):
        return [{"act": "start", "ch": 1, "amt": str(a)}] + pay[1:]
    lines += [{"act": "reset"}] + est + payn(0) + payn(4) + payn(0) + payn(0) + payn(-3) + payn(49) + payn(0) + payn(-55) + [{"act": "close", "ch": 1}]
    # the same kind of history under a generator whose word-sized draws are constant and whose fallible interface fails
    # (randomness forked from next_u64, or defaulted when try_fill_bytes fails, repeats under it)
    lines += [{"act": "reset"}, {"act": "rngmode", "frugal": True}] + est + payn(4) + payn(4) + payn(0) + payn(-3) + [{"act": "close", "ch": 1}]
    d = os.path.join(WORK, "C14_run")
    os.makedirs(d, exist_ok=True)
    sp, tp, ap = os.path.join(d, "script.ndjson"), os.path.join(d, "proto.trace.ndjson"), os.path.join(d, "atoms.trace.ndjson")
    write_script(sp, lines)
    harness(["proto", "--script", sp, "--out", tp, "--atoms-out", ap, "--seed", seed])
    events = [json.loads(l) for l in open(ap)]
    v = validate_trace("Trace_Atoms", "Trace_Atoms.cfg", ap, name="trace_C14")
    if not v["accepted"]:
        e = events[v["matched"]]
        seen = set()
        for x in events[:v["matched"]]:
            if x["ev"] == "reset": seen = set()
            else: seen |= set(x.get("atoms", []))
        reused = sorted((set(e.get("atoms", [])) & seen) - set(e.get("known", [])))
        leaked = sorted((set(e.get("atoms", [])) & set(e.get("secrets", []))) - set(e.get("allowed", [])))
        raise Violation("C14", f"customer message '{e.get('kind')}' on channel {e.get('ch')}: {len(reused)} atom(s) already in the merchant's view, {len(leaked)} secret scalar(s) of the customer state exposed",
                        {"kind": "atoms", "property": "C14", "seed": seed, "script": lines, "event_index": v["matched"], "reused_atom_ids": reused[:10], "leaked_secret_ids": leaked[:10],
                         "message_kind": e.get("kind"), "channel": e.get("ch")})
    msgs = [e for e in events if e["ev"] == "msg"]
    closes = sum(1 for e in msgs if e["kind"] == "close")
    stages_closed = {json.loads(l).get("stage") for l in open(tp) if '"ev":"close"' in l}
    cov = {"states": m["distinct"] + mh["distinct"], "transitions": m["generated"] + mh["generated"], "traces_validated_against_impl": len(walks) + (8 if q else 60),
           "commitment_scalar_space": hev,
           "evaluations": len(msgs), "distinct_nontrivial": len({(e["dir"], e["kind"], e["ch"], len(e["atoms"])) for e in msgs}),
           "rule": "one evaluation = one message of a real protocol history (both directions; histories from TLC walks of ZkAbacus.tla and the random driver on up to 3 channels with refused replies and closes "
                   "from every stage): every 32/48/96-byte atom interned and compared with everything the merchant saw before (earlier messages, public parameters of all merchants) and with the secret "
                   "scalars held in the customer state when it was sent; distinct = (direction, kind, channel, number of atoms)",
           "samples": [{k: (e[k] if k not in ("atoms", "secrets", "allowed") else len(e[k])) for k in e} for e in msgs[:6]],
           "messages_by_kind": {k: sum(1 for e in msgs if e["kind"] == k and e["dir"] == "c2m") for k in ("establish", "pay", "lock", "close")},
           "closing_messages": closes, "atoms_interned": max([max(e["atoms"]) for e in msgs if e["atoms"]] + [0]), "exhaustive": False,
           "checker_cmd": "tlc AtomFlow (NoReuse, NoSecretLeak; must fail with RERANDOMIZE = FALSE / LEAK = TRUE) + Trace_Atoms on harness histories"}
    return write_evidence("C14", tier, seed, "model_checking", cov, time.time() - t0, 0,
                          ["necessary condition for unlinkability only (as the property says); zero knowledge of the proofs is not decided",
                           "equality of atoms is byte equality of their canonical encodings"])


def check_C20(tier, seed):
    q = tier == "quick"
    c = campaign("C20", tier, seed, "MC_ZkAbacus_quick.cfg", "MCX_ZkAbacus_sim.cfg",
                 sim_num=8 if q else 50, sim_depth=45 if q else 70, scales=[SCALE_BIG],
                 drv_runs=6 if q else 40, drv_steps=70 if q else 120,
                 drv_kwargs=dict(w_fault=1.0, w_close=0.1, w_restore=2.0, w_replay=0.5, max_pays=4),
                 trace_cfg="Trace_ZkAbacus.cfg", drop_restore=False)
    extra20 = {"checker_cmd": "tlc MC_ZkAbacus (property RestoreStutters) + Trace_ZkAbacus.cfg (Aspects={twin}) on harness traces"}
    if not q:
        cc = cover_campaign("C20", seed, "Trace_ZkAbacus.cfg", drop_restore=False)
        c["events"] += cc["events"]; c["classes"] |= cc["classes"]; c["runs"] += cc["runs"]
        extra20.update({"edge_cover": {"abstract_states": cc["states"], "transitions_covered": cc["edges"], "runs": cc["runs"], "events_executed": cc["events"],
                                        "note": "every transition of MC_ZkAbacus_cover.cfg incl. Restore at every state, each customer call executed on a restored twin"}, "exhaustive": True})
    return evidence_from("C20", tier, seed, c,
        "every customer API call of every history is executed twice: on the never-stored object and on a twin restored from its bincode image with the same "
        "randomness; outcome, next stage image and emitted message must be byte-identical (event field twin), restore steps replace the live object by the "
        "restored one and the run continues; TLC validates with aspect \"twin\" on; distinct = (stage, event, how, outcome) classes",
        ASSUME, extra20)
