"""Strategy catalogue of the forger family for EstablishProof / PayProof, each with its abstraction
into Z_7 instances of the cluster shapes of GameShapes.tla (what Trace_Game.tla evaluates).

Abstract values: public value B = 1 (amount A = 1), a lie = 2, another lie = 3; commitment scalars:
linked members share t = 1, an unlinked member gets t = 2; an honest revealed scalar s equals the
commitment scalar of the opened (close-state) member.  `lateRev` / `lateT` / `lateC` name the fields
the strategy chooses after the challenge; `hashedRev` / `hashedT` / `hashedC` are filled in from the
transcript OBSERVED on the implementation (observe.json)."""

LIES = {"ok": 1, "plus1": 2, "minus1": 3, "fresh": 2}


def mval(d, base=1):
    if d == "ok":
        return base
    if d.startswith("slot:"):
        return 4          # the value of another slot: some value different from the public one
    if d.startswith("val:"):
        return 5
    return LIES[d]


def est_clusters(hs, hc, unlink, rev, sim, hashed, rev_delta=None):
    """abstract the establish strategy into the five clusters of EstablishProof::verify"""
    rev_delta = rev_delta or {}
    cl = []
    names = {0: "cid", 3: "cb", 4: "mb"}
    for slot in (0, 3, 4):
        key = names[slot]
        ma, mb_ = mval(hs[slot]), mval(hc[slot])
        ta, tb = 1, (2 if slot in unlink else 1)
        mode = rev.get(key, "honest")
        lateT, lateC = [], []
        for sm in sim:
            if sm["slot"] == slot:
                mem = "a" if sm["proof"] == "state" else "b"
                (lateT if sm["field"] == "T" else lateC).append(mem)
        cl.append({"name": "est." + key, "shape": "Open2", "neg": False, "m": {"a": ma, "b": mb_}, "t": {"a": ta, "b": tb},
                   "s": (tb + (1 if key in rev_delta else 0)) % 7, "pub": 1, "lateRev": mode != "honest", "lateT": lateT, "lateC": lateC,
                   "hashedRev": hashed["rev"][key], "hashedT": hashed_members(hashed, "T", {"a": "state", "b": "close"}),
                   "hashedC": hashed_members(hashed, "C", {"a": "state", "b": "close"})})
    # tag: Open1 on close[1]
    lateT, lateC = [], []
    for sm in sim:
        if sm["slot"] == 1 and sm["proof"] == "close":
            (lateT if sm["field"] == "T" else lateC).append("a")
    cl.append({"name": "est.tag", "shape": "Open1", "neg": False, "m": {"a": mval(hc[1])}, "t": {"a": 1},
               "s": (1 + (1 if "tag" in rev_delta else 0)) % 7, "pub": 1,
               "lateRev": rev.get("tag", "honest") != "honest", "lateT": lateT, "lateC": lateC,
               "hashedRev": hashed["rev"]["tag"], "hashedT": hashed_members(hashed, "T", {"a": "close"}),
               "hashedC": hashed_members(hashed, "C", {"a": "close"})})
    # lock: Eq2(state[2], close[2]); both hide the same free value unless one side deviates
    lateT, lateC = [], []
    for sm in sim:
        if sm["slot"] == 2:
            mem = "a" if sm["proof"] == "state" else "b"
            (lateT if sm["field"] == "T" else lateC).append(mem)
    cl.append({"name": "est.lock", "shape": "Eq2", "neg": False, "m": {"a": mval(hs[2]), "b": mval(hc[2])},
               "t": {"a": 1, "b": 2 if 2 in unlink else 1}, "s": 0, "pub": 0, "lateRev": False, "lateT": lateT, "lateC": lateC,
               "hashedRev": True, "hashedT": hashed_members(hashed, "T", {"a": "state", "b": "close"}),
               "hashedC": hashed_members(hashed, "C", {"a": "state", "b": "close"})})
    return cl


def hashed_members(hashed, field, mapping):
    return [mem for mem, proof in mapping.items() if hashed[field][proof]]


def establish_hashed(obs):
    """observe.json -> which revealed scalars / C / T of the establish proof are hashed"""
    h = {"rev": {}, "C": {}, "T": {}, "other_unhashed": []}
    names = {"channel_id_commitment_scalar": "cid", "close_tag_commitment_scalar": "tag",
             "customer_balance_commitment_scalar": "cb", "merchant_balance_commitment_scalar": "mb"}
    for a in obs["atoms"]:
        if a["response"]:
            continue
        p = a["path"]
        if p in names:
            h["rev"][names[p]] = a["hashed"]
        elif p.endswith(".commitment_proof.commitment"):
            h["C"]["state" if p.startswith("state_proof") else "close"] = a["hashed"]
        elif p.endswith(".commitment_proof.scalar_commitment"):
            h["T"]["state" if p.startswith("state_proof") else "close"] = a["hashed"]
        elif not a["hashed"]:
            h["other_unhashed"].append(p)
    return h


def establish_strategies(hashed, tier):
    """the catalogue: every slot x side x lie x method; late choice of every non-response field"""
    S = []

    def add(name, hs=None, hc=None, unlink=(), rev=None, sim=None, rev_delta=None, cb=10, mb=1000):
        hs = hs or ["ok"] * 5
        hc = hc or ["ok"] * 5
        rev = rev or {}
        sim = sim or []
        S.append({"proof": "establish", "id": len(S) + 1, "name": name, "hs": hs, "hc": hc, "unlink": list(unlink), "rev": rev,
                  "sim": sim, "rev_delta": rev_delta or {}, "cb": cb, "mb": mb,
                  "clusters": est_clusters(hs, hc, set(unlink), rev, sim, hashed, rev_delta)})

    def lie(slot, kind):
        v = ["ok"] * 5
        v[slot] = kind
        return v

    add("honest")
    add("honest, zero balances", cb=0, mb=0)
    add("honest, maximal balances", cb=2**63 - 1, mb=2**63 - 1)
    keys = {0: "cid", 1: "tag", 3: "cb", 4: "mb"}
    lies = ["plus1", "fresh", "minus1"] if tier != "quick" else ["plus1", "fresh"]
    for slot in range(5):
        for kind in lies + (["slot:%d" % ((slot + 1) % 5 if (slot + 1) % 5 != 1 else 3)] if slot != 1 else []):
            for side in ("state", "close", "both"):
                if slot == 1 and side != "close":
                    continue      # the nonce slot of the state is free
                hs = lie(slot, kind) if side in ("state", "both") else None
                hc = lie(slot, kind) if side in ("close", "both") else None
                if side == "both" and kind == "fresh":
                    continue      # two independent fresh values = two one-sided lies
                # honest-but-lying
                add(f"lie {kind} slot {slot} {side}", hs, hc)
                # break the link of that slot as well
                if slot != 1:
                    add(f"lie {kind} slot {slot} {side} unlinked", hs, hc, unlink=[slot])
                # post-challenge choice of the revealed scalar of that slot
                if slot in keys:
                    for src in ("state", "close"):
                        if slot == 1 and src == "state":
                            continue
                        add(f"lie {kind} slot {slot} {side} late revealed scalar from {src}", hs, hc, rev={keys[slot]: src})
                # post-challenge choice of T / C of the lying sub-proof (pointless when the lie keeps
                # the statement true: equal lies in the free lock slot)
                for field in (("T", "C") if not (slot == 2 and side == "both") else ()):
                    for which in (("state", "close") if side == "both" else (side,)):
                        add(f"lie {kind} slot {slot} {side} simulate {which}.{field}", hs, hc,
                            sim=[{"proof": which, "slot": slot, "field": field}])
                    if side == "both":
                        add(f"lie {kind} slot {slot} both simulate state.{field} and close.{field}", hs, hc,
                            sim=[{"proof": "state", "slot": slot, "field": field}, {"proof": "close", "slot": slot, "field": field}])
    # a revealed scalar different from the commitment scalar, fixed before the challenge, then C chosen late
    for slot, k in ((3, "cb"), (4, "mb"), (0, "cid")):
        add(f"revealed scalar {k} shifted, C of state and close chosen late", rev_delta={k: 1},
            sim=[{"proof": "state", "slot": slot, "field": "C"}, {"proof": "close", "slot": slot, "field": "C"}])
        add(f"revealed scalar {k} shifted, T of state and close chosen late", rev_delta={k: 1},
            sim=[{"proof": "state", "slot": slot, "field": "T"}, {"proof": "close", "slot": slot, "field": "T"}])
        add(f"revealed scalar {k} shifted only", rev_delta={k: 1})
    return S
