"""Strategy catalogue of the forger family for EstablishProof / PayProof, each with its abstraction
into Z_7 instances of the cluster shapes of GameShapes.tla (what Trace_Game.tla evaluates).

Abstract values: public value B = 1 (amount A = 1), a lie = 2, another lie = 3; commitment scalars:
linked members share t = 1, an unlinked member gets t = 2; an honest revealed scalar s equals the
commitment scalar of the opened (close-state) member.  `lateRev` / `lateT` / `lateC` name the fields
the strategy chooses after the challenge; `hashedRev` / `hashedT` / `hashedC` are filled in from the
transcript OBSERVED on the implementation (observe.json)."""

LIES = {"ok": 1, "plus1": 2, "minus1": 3, "fresh": 2}


def mval(d, base=1):
    if d == "ok":
        return base
    if d.startswith("slot:"):
        return 4          # the value of another slot: some value different from the public one
    if d.startswith("val:"):
        return 5
    return LIES[d]


def est_clusters(hs, hc, unlink, rev, sim, hashed, rev_delta=None):
    """abstract the establish strategy into the five clusters of EstablishProof::verify"""
    rev_delta = rev_delta or {}
    cl = []
    names = {0: "cid", 3: "cb", 4: "mb"}
    for slot in (0, 3, 4):
        key = names[slot]
        ma, mb_ = mval(hs[slot]), mval(hc[slot])
        ta, tb = 1, (2 if slot in unlink else 1)
        mode = rev.get(key, "honest")
        lateT, lateC = [], []
        for sm in sim:
            if sm["slot"] == slot:
                mem = "a" if sm["proof"] == "state" else "b"
                (lateT if sm["field"] == "T" else lateC).append(mem)
        cl.append({"name": "est." + key, "shape": "Open2", "neg": False, "m": {"a": ma, "b": mb_}, "t": {"a": ta, "b": tb},
                   "s": (tb + (1 if key in rev_delta else 0)) % 7, "pub": 1, "lateRev": mode != "honest", "lateT": lateT, "lateC": lateC,
                   "hashedRev": hashed["rev"][key], "hashedT": hashed_members(hashed, "T", {"a": "state", "b": "close"}),
                   "hashedC": hashed_members(hashed, "C", {"a": "state", "b": "close"})})
    # tag: Open1 on close[1]
    lateT, lateC = [], []
    for sm in sim:
        if sm["slot"] == 1 and sm["proof"] == "close":
            (lateT if sm["field"] == "T" else lateC).append("a")
    cl.append({"name": "est.tag", "shape": "Open1", "neg": False, "m": {"a": mval(hc[1])}, "t": {"a": 1},
               "s": (1 + (1 if "tag" in rev_delta else 0)) % 7, "pub": 1,
               "lateRev": rev.get("tag", "honest") != "honest", "lateT": lateT, "lateC": lateC,
               "hashedRev": hashed["rev"]["tag"], "hashedT": hashed_members(hashed, "T", {"a": "close"}),
               "hashedC": hashed_members(hashed, "C", {"a": "close"})})
    # lock: Eq2(state[2], close[2]); both hide the same free value unless one side deviates
    lateT, lateC = [], []
    for sm in sim:
        if sm["slot"] == 2:
            mem = "a" if sm["proof"] == "state" else "b"
            (lateT if sm["field"] == "T" else lateC).append(mem)
    cl.append({"name": "est.lock", "shape": "Eq2", "neg": False, "m": {"a": mval(hs[2]), "b": mval(hc[2])},
               "t": {"a": 1, "b": 2 if 2 in unlink else 1}, "s": 0, "pub": 0, "lateRev": False, "lateT": lateT, "lateC": lateC,
               "hashedRev": True, "hashedT": hashed_members(hashed, "T", {"a": "state", "b": "close"}),
               "hashedC": hashed_members(hashed, "C", {"a": "state", "b": "close"})})
    return cl


def hashed_members(hashed, field, mapping):
    return [mem for mem, proof in mapping.items() if hashed[field][proof]]


def establish_hashed(obs):
    """observe.json -> which revealed scalars / C / T of the establish proof are hashed"""
    h = {"rev": {}, "C": {}, "T": {}, "other_unhashed": []}
    names = {"channel_id_commitment_scalar": "cid", "close_tag_commitment_scalar": "tag",
             "customer_balance_commitment_scalar": "cb", "merchant_balance_commitment_scalar": "mb"}
    for a in obs["atoms"]:
        if a["response"]:
            continue
        p = a["path"]
        if p in names:
            h["rev"][names[p]] = a["hashed"]
        elif p.endswith(".commitment_proof.commitment"):
            h["C"]["state" if p.startswith("state_proof") else "close"] = a["hashed"]
        elif p.endswith(".commitment_proof.scalar_commitment"):
            h["T"]["state" if p.startswith("state_proof") else "close"] = a["hashed"]
        elif not a["hashed"]:
            h["other_unhashed"].append(p)
    return h


def establish_strategies(hashed, tier):
    """the catalogue: every slot x side x lie x method; late choice of every non-response field"""
    S = []

    def add(name, hs=None, hc=None, unlink=(), rev=None, sim=None, rev_delta=None, cb=10, mb=1000, zset=None):
        hs = hs or ["ok"] * 5
        hc = hc or ["ok"] * 5
        rev = rev or {}
        sim = sim or []
        S.append({"proof": "establish", "id": len(S) + 1, "name": name, "hs": hs, "hc": hc, "unlink": list(unlink), "rev": rev,
                  "sim": sim, "rev_delta": rev_delta or {}, "cb": cb, "mb": mb, "zset": zset or [],
                  "clusters": est_clusters(hs, hc, set(unlink), rev, sim, hashed, rev_delta)})

    def lie(slot, kind):
        v = ["ok"] * 5
        v[slot] = kind
        return v

    add("honest")
    add("honest, zero balances", cb=0, mb=0)
    add("honest, maximal balances", cb=2**63 - 1, mb=2**63 - 1)
    keys = {0: "cid", 1: "tag", 3: "cb", 4: "mb"}
    lies = ["plus1", "fresh", "minus1"] if tier != "quick" else ["plus1", "fresh"]
    for slot in range(5):
        for kind in lies + (["slot:%d" % ((slot + 1) % 5 if (slot + 1) % 5 != 1 else 3)] if slot != 1 else []):
            for side in ("state", "close", "both"):
                if slot == 1 and side != "close":
                    continue      # the nonce slot of the state is free
                hs = lie(slot, kind) if side in ("state", "both") else None
                hc = lie(slot, kind) if side in ("close", "both") else None
                if side == "both" and kind == "fresh":
                    continue      # two independent fresh values = two one-sided lies
                # honest-but-lying
                add(f"lie {kind} slot {slot} {side}", hs, hc)
                # break the link of that slot as well
                if slot != 1:
                    add(f"lie {kind} slot {slot} {side} unlinked", hs, hc, unlink=[slot])
                # post-challenge choice of the revealed scalar of that slot
                if slot in keys:
                    for src in ("state", "close"):
                        if slot == 1 and src == "state":
                            continue
                        add(f"lie {kind} slot {slot} {side} late revealed scalar from {src}", hs, hc, rev={keys[slot]: src})
                # post-challenge choice of T / C of the lying sub-proof (pointless when the lie keeps
                # the statement true: equal lies in the free lock slot)
                for field in (("T", "C") if not (slot == 2 and side == "both") else ()):
                    for which in (("state", "close") if side == "both" else (side,)):
                        add(f"lie {kind} slot {slot} {side} simulate {which}.{field}", hs, hc,
                            sim=[{"proof": which, "slot": slot, "field": field}])
                    if side == "both":
                        add(f"lie {kind} slot {slot} both simulate state.{field} and close.{field}", hs, hc,
                            sim=[{"proof": "state", "slot": slot, "field": field}, {"proof": "close", "slot": slot, "field": field}])
    # a revealed scalar different from the commitment scalar, fixed before the challenge, then C chosen late
    for slot, k in ((3, "cb"), (4, "mb"), (0, "cid")):
        add(f"revealed scalar {k} shifted, C of state and close chosen late", rev_delta={k: 1},
            sim=[{"proof": "state", "slot": slot, "field": "C"}, {"proof": "close", "slot": slot, "field": "C"}])
        add(f"revealed scalar {k} shifted, T of state and close chosen late", rev_delta={k: 1},
            sim=[{"proof": "state", "slot": slot, "field": "T"}, {"proof": "close", "slot": slot, "field": "T"}])
        add(f"revealed scalar {k} shifted only", rev_delta={k: 1})
    # responses NOT those of the committed values: after the challenge the prover sends, for a slot it lied in,
    # the response an honest prover for the AGREED value would send.  Every linear check then passes and only
    # the Schnorr equation of that sub-proof refuses.  With COMPENSATING lies (+1 in the state, -1 in the close
    # state) the two Schnorr equations are each false while their unweighted sum holds.
    for slot in range(5):
        if slot != 1:
            for a, b in (("plus1", "minus1"), ("minus1", "plus1")):
                add(f"compensating lies slot {slot}: state {a}, close {b}, responses as for the agreed values",
                    lie(slot, a), lie(slot, b), zset=[{"proof": "state", "slot": slot}, {"proof": "close", "slot": slot}])
            add(f"lie plus1 slot {slot} state, response as for the agreed value", lie(slot, "plus1"), None,
                zset=[{"proof": "state", "slot": slot}])
        add(f"lie plus1 slot {slot} close, response as for the agreed value", None, lie(slot, "plus1"),
            zset=[{"proof": "close", "slot": slot}])
    x = ["ok", "ok", "ok", "plus1", "minus1"]
    add("state: customer balance +1 and merchant balance -1, responses as for the agreed values", x, None,
        zset=[{"proof": "state", "slot": 3}, {"proof": "state", "slot": 4}])
    add("state and close state: customer balance +1 and merchant balance -1, responses as for the agreed values", x, x,
        zset=[{"proof": p, "slot": k} for p in ("state", "close") for k in (3, 4)])
    return S


# ======================================================================================= Pay

def pay_hashed(obs):
    """observe.json -> hashed flags of the pay proof: revealed scalars, C / T per sub-proof"""
    h = {"rev": {}, "C": {}, "T": {}, "sig": {}, "other_unhashed": []}
    cdC = cdT = mdC = mdT = True
    for a in obs["atoms"]:
        if a["response"]:
            continue
        p = a["path"]
        if p == "old_nonce_commitment_scalar":
            h["rev"]["nonce"] = a["hashed"]
        elif p == "close_tag_commitment_scalar":
            h["rev"]["tag"] = a["hashed"]
        elif p.startswith("old_pay_token_proof.commitment_proof."):
            h["C" if p.endswith(".commitment") else "T"]["pt"] = a["hashed"]
        elif p.startswith("old_revocation_lock_proof."):
            h["C" if p.endswith(".commitment") else "T"]["rl"] = a["hashed"]
        elif p.startswith("state_proof.commitment_proof."):
            h["C" if p.endswith(".commitment") else "T"]["st"] = a["hashed"]
        elif p.startswith("close_state_proof.commitment_proof."):
            h["C" if p.endswith(".commitment") else "T"]["cl"] = a["hashed"]
        elif ".digit_proofs." in p and ".commitment_proof." in p:
            cust = p.startswith("customer_balance_proof")
            if p.endswith(".commitment"):
                if cust: cdC = cdC and a["hashed"]
                else: mdC = mdC and a["hashed"]
            else:
                if cust: cdT = cdT and a["hashed"]
                else: mdT = mdT and a["hashed"]
        elif "blinded_signature" in p:
            h["sig"][p] = a["hashed"]
        if not a["hashed"] and p not in h["other_unhashed"]:
            h["other_unhashed"].append(p)
    h["C"]["cdig"], h["T"]["cdig"], h["C"]["mdig"], h["T"]["mdig"] = cdC, cdT, mdC, mdT
    return h


PAY_MEMBERS = {"pay.cid": {"a": "st", "b": "cl", "c": "pt"}, "pay.nonce": {"a": "pt"}, "pay.tag": {"a": "cl"},
               "pay.oldlock": {"a": "rl", "b": "pt"}, "pay.newlock": {"a": "st", "b": "cl"},
               "pay.cb": {"pt": "pt", "st": "st", "cl": "cl", "d1": "cdig"}, "pay.mb": {"pt": "pt", "st": "st", "cl": "cl", "d1": "mdig"}}
PAY_SHAPE = {"pay.cid": "Eq3", "pay.nonce": "Open1", "pay.tag": "Open1", "pay.oldlock": "Eq2", "pay.newlock": "Eq2",
             "pay.cb": "Bal1", "pay.mb": "Bal1"}


def pay_clusters(ab, hashed):
    """ab: {cluster: {"m": {...}, "t": {...}, "s": int, "lateRev": bool, "lateT": [...], "lateC": [...]}} overrides of the honest instance"""
    honest = {
        "pay.cid": {"m": {"a": 1, "b": 1, "c": 1}, "t": {"a": 1, "b": 1, "c": 1}},
        "pay.nonce": {"m": {"a": 1}, "t": {"a": 1}, "s": 1},
        "pay.tag": {"m": {"a": 1}, "t": {"a": 1}, "s": 1},
        "pay.oldlock": {"m": {"a": 1, "b": 1}, "t": {"a": 1, "b": 1}},
        "pay.newlock": {"m": {"a": 1, "b": 1}, "t": {"a": 1, "b": 1}},
        "pay.cb": {"m": {"pt": 2, "st": 1, "cl": 1, "d1": 1}, "t": {"pt": 1, "st": 1, "cl": 1, "d1": 1}},
        "pay.mb": {"m": {"pt": 0, "st": 1, "cl": 1, "d1": 1}, "t": {"pt": 1, "st": 1, "cl": 1, "d1": 1}},
    }
    out = []
    for name, h in honest.items():
        o = ab.get(name, {})
        m = dict(h["m"]); m.update(o.get("m", {}))
        t = dict(h["t"]); t.update(o.get("t", {}))
        mem = PAY_MEMBERS[name]
        rev = {"pay.nonce": "nonce", "pay.tag": "tag"}.get(name)
        out.append({"name": name, "shape": PAY_SHAPE[name], "neg": name == "pay.cb", "m": m, "t": t,
                    "s": o.get("s", h.get("s", 0)), "pub": 1, "lateRev": o.get("lateRev", False),
                    "lateT": o.get("lateT", []), "lateC": o.get("lateC", []),
                    "hashedRev": hashed["rev"].get(rev, True) if rev else True,
                    "hashedT": [x for x, p in mem.items() if hashed["T"].get(p, False)],
                    "hashedC": [x for x, p in mem.items() if hashed["C"].get(p, False)]})
    return out


def pay_strategies(hashed, tier):
    S = []
    ok5 = ["ok"] * 5

    def v(slot, kind):
        x = list(ok5); x[slot] = kind; return x

    def add(name, ab=None, **kw):
        d = {"proof": "pay", "id": 1000 + len(S) + 1, "name": name, "hpt": ok5, "hst": ok5, "hcl": ok5, "hrl": "ok",
             "claimed_nonce": "real", "token": "real", "unlink": [], "rev": {}, "sim": [], "rev_delta": {}, "zset": [],
             "amount": 7, "cb": 100, "mb": 50, "history": []}
        d.update(kw)
        d["clusters"] = pay_clusters(ab or {}, hashed)
        S.append(d)

    # honest payments of either sign, zero, boundary, after a history
    add("honest +7")
    add("honest -5", amount=-5)
    add("honest 0", amount=0)
    add("honest whole customer balance", amount=100)
    add("honest whole merchant balance back", amount=-50)
    if tier != "quick":
        add("honest after one payment", history=[3])
        add("honest up to 2^63-1", cb=2**63 - 1, mb=0, amount=2**63 - 1)
    # wrong nonce
    for kind in ("fresh", "plus1"):
        add(f"claimed nonce {kind}", {"pay.nonce": {"m": {"a": 2}}}, claimed_nonce=kind)
        add(f"claimed nonce {kind}, nonce scalar chosen late", {"pay.nonce": {"m": {"a": 2}, "lateRev": True}}, claimed_nonce=kind, rev={"nonce": "late"})
    # close tag replaced
    for kind in ("fresh", "plus1"):
        add(f"close tag slot {kind}", {"pay.tag": {"m": {"a": 2}}}, hcl=v(1, kind))
        add(f"close tag slot {kind}, tag scalar chosen late", {"pay.tag": {"m": {"a": 2}, "lateRev": True}}, hcl=v(1, kind), rev={"tag": "late"})
        for f in ("T", "C"):
            add(f"close tag slot {kind}, simulate cl.{f}", {"pay.tag": {"m": {"a": 2}, "late" + f: ["a"]}}, hcl=v(1, kind),
                sim=[{"proof": "cl", "slot": 1, "field": f}])
    # foreign channel id
    add("foreign cid in state and close state", {"pay.cid": {"m": {"a": 2, "b": 2}}}, hst=v(0, "plus1"), hcl=v(0, "plus1"))
    add("foreign cid in state only", {"pay.cid": {"m": {"a": 2}}}, hst=v(0, "plus1"))
    add("foreign cid in close state only", {"pay.cid": {"m": {"b": 2}}}, hcl=v(0, "fresh"))
    add("foreign cid in state and close state, unlinked from token", {"pay.cid": {"m": {"a": 2, "b": 2}, "t": {"a": 2, "b": 2}}},
        hst=v(0, "plus1"), hcl=v(0, "plus1"), unlink=["st0"])
    for f in ("T", "C"):
        add(f"foreign cid in state only, simulate st.{f}", {"pay.cid": {"m": {"a": 2}, "late" + f: ["a"]}}, hst=v(0, "plus1"),
            sim=[{"proof": "st", "slot": 0, "field": f}])
        add(f"foreign cid in close state only, simulate cl.{f}", {"pay.cid": {"m": {"b": 2}, "late" + f: ["b"]}}, hcl=v(0, "plus1"),
            sim=[{"proof": "cl", "slot": 0, "field": f}])
    # old revocation lock
    for kind in ("fresh", "plus1"):
        add(f"lock commitment to {kind} value", {"pay.oldlock": {"m": {"a": 2}}}, hrl=kind)
        add(f"lock commitment to {kind} value, unlinked", {"pay.oldlock": {"m": {"a": 2}, "t": {"b": 2}}}, hrl=kind, unlink=["pt2"])
        for f in ("T", "C"):
            add(f"lock commitment to {kind} value, simulate rl.{f}", {"pay.oldlock": {"m": {"a": 2}, "late" + f: ["a"]}}, hrl=kind,
                sim=[{"proof": "rl", "slot": 0, "field": f}])
    # new revocation lock
    add("new lock differs in close state", {"pay.newlock": {"m": {"b": 2}}}, hcl=v(2, "plus1"))
    add("new lock differs in state", {"pay.newlock": {"m": {"a": 2}}}, hst=v(2, "fresh"))
    add("new lock differs in close state, unlinked", {"pay.newlock": {"m": {"b": 2}, "t": {"b": 2}}}, hcl=v(2, "plus1"), unlink=["cl2"])
    for f in ("T", "C"):
        add(f"new lock differs in close state, simulate cl.{f}", {"pay.newlock": {"m": {"b": 2}, "late" + f: ["b"]}}, hcl=v(2, "plus1"),
            sim=[{"proof": "cl", "slot": 2, "field": f}])
        add(f"new lock differs in state, simulate st.{f}", {"pay.newlock": {"m": {"a": 2}, "late" + f: ["a"]}}, hst=v(2, "plus1"),
            sim=[{"proof": "st", "slot": 2, "field": f}])
    # wrong amount on one balance (state and close state agree with each other)
    add("customer balance moved by amount+1", {"pay.cb": {"m": {"st": 0, "cl": 0, "d1": 0}}}, hst=v(3, "minus1"), hcl=v(3, "minus1"))
    add("customer balance not moved", {"pay.cb": {"m": {"st": 2, "cl": 2, "d1": 1}}}, hst=v(3, "val:100"), hcl=v(3, "val:100"))
    add("merchant balance moved by amount+1", {"pay.mb": {"m": {"st": 2, "cl": 2, "d1": 1}}}, hst=v(4, "plus1"), hcl=v(4, "plus1"))
    add("merchant balance not moved", {"pay.mb": {"m": {"st": 0, "cl": 0, "d1": 0}}}, hst=v(4, "val:50"), hcl=v(4, "val:50"))
    add("claimed amount differs from the amount applied", {"pay.cb": {"m": {"st": 0, "cl": 0, "d1": 0}}, "pay.mb": {"m": {"st": 2, "cl": 2, "d1": 1}}},
        amount=8, claimed_amount=7)
    # close state balance differs from state balance
    add("close state customer balance differs", {"pay.cb": {"m": {"cl": 2}}}, hcl=v(3, "plus1"))
    add("close state merchant balance differs", {"pay.mb": {"m": {"cl": 2}}}, hcl=v(4, "plus1"))
    add("close state merchant balance zero", {"pay.mb": {"m": {"cl": 0}}}, hcl=v(4, "val:0"))
    add("close state customer balance differs, unlinked", {"pay.cb": {"m": {"cl": 2}, "t": {"cl": 2}}}, hcl=v(3, "plus1"), unlink=["cl3"])
    for f in ("T", "C"):
        add(f"close state merchant balance differs, simulate cl.{f}", {"pay.mb": {"m": {"cl": 2}, "late" + f: ["cl"]}}, hcl=v(4, "plus1"),
            sim=[{"proof": "cl", "slot": 4, "field": f}])
        add(f"close state customer balance differs, simulate cl.{f}", {"pay.cb": {"m": {"cl": 2}, "late" + f: ["cl"]}}, hcl=v(3, "plus1"),
            sim=[{"proof": "cl", "slot": 3, "field": f}])
    # out of range balances (wrap-around): the linear relations hold, only the range link can refuse
    add("customer balance -1 (amount = balance+1), range proof for 0", {"pay.cb": {"m": {"pt": 0, "st": 6, "cl": 6, "d1": 0}}}, amount=101)
    add("customer balance -1, range proof for 2^63-1", {"pay.cb": {"m": {"pt": 0, "st": 6, "cl": 6, "d1": 1}}}, amount=101, range_cb=2**63 - 1)
    add("merchant balance -1 (amount = -(balance+1))", {"pay.mb": {"m": {"pt": 5, "st": 6, "cl": 6, "d1": 0}}}, amount=-51)
    add("customer balance 2^63+99 (huge negative amount)", {"pay.cb": {"m": {"pt": 0, "st": 6, "cl": 6, "d1": 1}}, "pay.mb": {"m": {"pt": 5, "st": 6, "cl": 6, "d1": 0}}},
        amount=-(2**63 - 1), range_cb=2**63 - 1)
    # a CREDITED balance leaving the range at the top (the debited one stays in range): only its own range constraint can refuse
    add("merchant balance 2^63+9 (credited above the range)", {"pay.mb": {"m": {"pt": 1, "st": 2, "cl": 2, "d1": 0}}}, cb=100, mb=2**63 - 1, amount=10)
    add("customer balance 2^63+9 (credited above the range by a refund)", {"pay.cb": {"m": {"pt": 1, "st": 2, "cl": 2, "d1": 0}}}, cb=2**63 - 1, mb=100, amount=-10)
    add("customer balance -1, range proof unlinked", {"pay.cb": {"m": {"pt": 0, "st": 6, "cl": 6, "d1": 0}, "t": {"d1": 2}}}, amount=101, unlink=["pt3", "st3"])
    # responses not those of the committed values (see the establish catalogue): single and compensating lies
    for slot, nm, cl_name in ((0, "channel id", "pay.cid"), (2, "new lock", "pay.newlock"), (3, "customer balance", "pay.cb"), (4, "merchant balance", "pay.mb")):
        kw = {"range_cb": 93} if slot == 3 else ({"range_mb": 57} if slot == 4 else {})
        mk = ("a", "b") if slot in (0, 2) else ("st", "cl")
        add(f"compensating lies in the {nm}: state +1, close state -1, responses as for the agreed values",
            {cl_name: {"m": {mk[0]: 2, mk[1]: 0}}}, hst=v(slot, "plus1"), hcl=v(slot, "minus1"),
            zset=[{"proof": "st", "slot": slot}, {"proof": "cl", "slot": slot}], **kw)
        add(f"lie in the {nm} of the state, response as for the agreed value", {cl_name: {"m": {mk[0]: 2}}}, hst=v(slot, "plus1"),
            zset=[{"proof": "st", "slot": slot}], **kw)
        add(f"lie in the {nm} of the close state, response as for the agreed value", {cl_name: {"m": {mk[1]: 2}}}, hcl=v(slot, "plus1"),
            zset=[{"proof": "cl", "slot": slot}])
    add("close tag replaced, response as for the real tag", {"pay.tag": {"m": {"a": 2}}}, hcl=v(1, "plus1"), zset=[{"proof": "cl", "slot": 1}])
    add("lock commitment to plus1 value, response as for the real lock", {"pay.oldlock": {"m": {"a": 2}}}, hrl="plus1",
        zset=[{"proof": "rl", "slot": 0}])
    # digit-level range prover: arbitrary digits and digit signatures
    def digs(value, over=None):
        out = []
        for j in range(9):
            out.append({"d": value % 128, "sig": "params"})
            value //= 128
        for k, e in (over or {}).items():
            out[k] = e
        return out
    add("honest, range constraints assembled digit by digit", digits_cb=digs(93), digits_mb=digs(57))
    add("one honest digit carried by a foreign-key signature", digits_cb=digs(93, {1: {"d": 0, "sig": "otherkey"}}))
    add("value 93 written as -35 + 1*128, the digit -35 signed by a foreign key", digits_cb=digs(93, {0: {"d": -35, "sig": "otherkey"}, 1: {"d": 1, "sig": "params"}}))
    add("digit 128 (= published range + 1) signed by a foreign key", cb=135, digits_cb=digs(128, {0: {"d": 128, "sig": "otherkey"}, 1: {"d": 0, "sig": "params"}}))
    add("true statement, two cooperating forged digit signatures (H, Za), (-H, Zb)", digits_cb=digs(93, {0: {"d": 93, "sig": "pairA"}, 1: {"d": 0, "sig": "pairB"}}))
    add("true statement, cooperating forged digit signatures in the merchant balance constraint",
        digits_mb=digs(57, {3: {"d": 0, "sig": "pairA"}, 8: {"d": 0, "sig": "pairB"}}))
    add("overdraft: customer balance -5 carried by two cooperating forged digit signatures",
        {"pay.cb": {"m": {"pt": 0, "st": 6, "cl": 6, "d1": 0}}}, amount=105,
        digits_cb=digs(0, {0: {"d": -5, "sig": "pairA"}, 1: {"d": 0, "sig": "pairB"}}))
    add("overdraft: customer balance -5, digit -5 signed by a foreign key",
        {"pay.cb": {"m": {"pt": 0, "st": 6, "cl": 6, "d1": 0}}}, amount=105, digits_cb=digs(0, {0: {"d": -5, "sig": "otherkey"}}))
    add("merchant overdraft: merchant balance -1 carried by two cooperating forged digit signatures",
        {"pay.mb": {"m": {"pt": 5, "st": 6, "cl": 6, "d1": 0}}}, amount=-51,
        digits_mb=digs(0, {0: {"d": -1, "sig": "pairA"}, 5: {"d": 0, "sig": "pairB"}}))
    # pay token
    add("pay token signed by another key", token="otherkey")
    add("tampered pay token: sigma1 a small-order curve point outside G1, sigma2 the identity, around an inflated old balance",
        token="smallorder", hpt=v(3, "plus1"), hst=v(3, "plus1"), hcl=v(3, "plus1"))
    add("tampered pay token: sigma1 a small-order curve point outside G1, around the real old state", token="smallorder")
    add("all-identity blinded pay token (chosen randomness) around an unsigned old state", token="identity",
        hpt=v(3, "val:1000000"), hst=v(3, "val:999993"), hcl=v(3, "val:999993"))
    add("all-identity blinded pay token (chosen randomness) around the real old state", token="identity")
    add("old balance inflated consistently (token does not cover it)", hpt=v(3, "plus1"), hst=v(3, "plus1"), hcl=v(3, "plus1"))
    add("old channel id replaced consistently (token does not cover it)", hpt=v(0, "plus1"), hst=v(0, "plus1"), hcl=v(0, "plus1"))
    add("old nonce replaced consistently (token does not cover it)", hpt=v(1, "plus1"), claimed_nonce="plus1")
    add("old lock replaced consistently (token does not cover it)", hpt=v(2, "plus1"), hrl="plus1")
    return S
