"""Action scripts for the protocol executor (`zkverif proto`).

Two sources:
  * walks of the specification itself, produced by TLC in simulation mode (MCX_ZkAbacus) and
    scaled to real balances (scripts_from_walks);
  * a weighted random / boundary-directed driver that mirrors the enabling conditions of
    ZkAbacus.tla (RandomDriver) so that long runs make progress through many payments and
    exercise the 64-bit boundary lattice of C04/C17.
Every script is executed against the real code and the resulting trace is validated by TLC
against Trace_ZkAbacus.tla; the driver's own bookkeeping is never used as an oracle.
"""
import random

I64_MAX = 2**63 - 1
FAULTS = ["garbage", "altbal", "altcid", "altlock", "wrongtype", "oldstate", "otherkey", "wrongbf", "identity", "smallorder", "swapbal", "altslot2", "otherbf", "altcid_hi"]
REVKINDS = ["newstate", "wrongbf", "otherchan", "bothwrong", "laterindex", "shiftedbf"]


def scripts_from_walks(walks, scale):
    """TLC walks (lists of `last` records) -> script lines, balances and amounts multiplied by scale."""
    lines = []
    for w in walks:
        lines.append({"act": "reset"})
        for s in w:
            a, ch = s["act"], s["ch"]
            if a == "request":
                lines.append({"act": "request", "ch": ch, "cb": str(s["arg"][0] * scale), "mb": str(s["arg"][1] * scale)})
            elif a == "receive":
                how = s["arg"]
                if how == "honest":
                    lines.append({"act": "deliver", "ch": ch})
                elif how == "replay":
                    lines.append({"act": "replay", "ch": ch, "typ": s["aux"][2], "rch": s["aux"][0], "rk": s["aux"][1]})
                else:
                    lines.append({"act": "fault", "ch": ch, "kind": how})
            elif a == "start":
                v = s["arg"]["mag"] * scale
                lines.append({"act": "start", "ch": ch, "amt": str(-v if s["arg"]["neg"] else v)})
            elif a in ("close", "restore", "minit", "mactivate", "mallow"):
                lines.append({"act": a, "ch": ch})
            elif a == "mcomplete":
                if s["arg"] == "honest":
                    lines.append({"act": "mcomplete", "ch": ch})
                else:
                    lines.append({"act": "wrongrev", "ch": ch, "kind": s["arg"]})
            else:
                raise ValueError("unknown step " + a)
    return lines


class Chan:
    def __init__(self):
        self.stage = "none"; self.k = 0; self.led = []; self.c2m = "none"; self.m2c = None
        self.vbs = False; self.pend = None; self.pays = 0


class RandomDriver:
    """Mirror of the enabling conditions of ZkAbacus.tla with weights; produces one script."""
    WAITING = {"requested": ("close", 0), "inactive": ("token", 0)}

    def __init__(self, rng, channels=(1, 2), faults=FAULTS, revkinds=REVKINDS, w_fault=1.0, w_close=0.15,
                 w_restore=0.5, w_replay=0.5, max_pays=6, big=False):
        self.r = rng; self.ch = {c: Chan() for c in channels}; self.faults = faults; self.revkinds = revkinds
        self.w_fault, self.w_close, self.w_restore, self.w_replay = w_fault, w_close, w_restore, w_replay
        self.max_pays = max_pays; self.big = big; self.wire = []; self.lines = [{"act": "reset"}]

    # ---- value lattices (C04 / C17)
    def init_balance(self):
        r = self.r
        if not self.big:
            return r.choice([0, 1, 2, 5, 10, 100, 1000])
        return r.choice([0, 1, 127, 128, 129, 2**31, 2**32, 2**62, I64_MAX - 1, I64_MAX, r.randrange(0, 2**63),
                         r.randrange(0, 2**20), 128**4, 128**8 - 1, 128**8, I64_MAX // 2, I64_MAX // 2 + 1])

    def amount(self, cb, mb):
        r = self.r
        c = [0, 1, -1, cb, -mb, cb + 1, -(mb + 1), I64_MAX - mb, I64_MAX - mb + 1, -(I64_MAX - cb), -(I64_MAX - cb) - 1,
             I64_MAX, -I64_MAX, cb // 2, -(mb // 2), r.randrange(-2**20, 2**20)]
        if self.big:
            c += [r.randrange(-2**63 + 1, 2**63), 128**r.randrange(1, 9) + r.choice([-1, 0, 1]), -(128**r.randrange(1, 9)) + r.choice([-1, 0, 1]),
                  2**62, -2**62, 2**31, 2**32]
        a = r.choice(c)
        return max(-I64_MAX, min(I64_MAX, a))

    def expect(self, c):
        if c.stage == "requested": return ("close", 0)
        if c.stage == "inactive": return ("token", 0)
        if c.stage == "started": return ("close", c.k + 1)
        if c.stage == "locked": return ("token", c.k)
        return None

    def enabled(self):
        acts = []
        for cid, c in self.ch.items():
            e = self.expect(c)
            if c.stage == "none":
                acts.append((3.0, ("request", cid)))
            if e:
                if c.m2c is not None:
                    acts.append((3.0, ("deliver", cid)))
                for f in self.faults:
                    acts.append((self.w_fault / max(1, len(self.faults)) * 2, ("fault", cid, f)))
                others = [w for w in self.wire if w != c.m2c]
                if others:
                    acts.append((self.w_replay, ("replay", cid, self.r.choice(others))))
            if c.stage == "ready" and c.pays < self.max_pays:
                acts.append((3.0, ("start", cid)))
            if c.stage in ("inactive", "ready", "started", "locked"):
                acts.append((self.w_close, ("close", cid)))
            if c.stage in ("requested", "inactive", "ready", "started", "locked"):
                acts.append((self.w_restore, ("restore", cid)))
            if c.c2m == "establish":
                acts.append((3.0, ("minit", cid)))
            if c.vbs and c.m2c is None and c.stage == "inactive":
                acts.append((3.0, ("mactivate", cid)))
            if c.c2m == "pay":
                acts.append((3.0, ("mallow", cid)))
            if c.c2m == "lock" and c.pend is not None:
                acts.append((3.0, ("mcomplete", cid)))
            if c.pend is not None:
                for k in self.revkinds:
                    acts.append((0.4 / max(1, len(self.revkinds)), ("wrongrev", cid, k)))
        return acts

    def step(self):
        acts = self.enabled()
        if not acts:
            return False
        tot = sum(w for w, _ in acts)
        x = self.r.random() * tot
        for w, a in acts:
            x -= w
            if x <= 0:
                break
        kind, cid = a[0], a[1]
        c = self.ch[cid]
        if kind == "request":
            cb, mb = self.init_balance(), self.init_balance()
            c.stage = "requested"; c.led = [(cb, mb)]; c.c2m = "establish"
            self.lines.append({"act": "request", "ch": cid, "cb": str(cb), "mb": str(mb)})
        elif kind == "deliver":
            e = self.expect(c)
            self.lines.append({"act": "deliver", "ch": cid})
            if c.m2c == (e[0], cid, e[1]):
                c.m2c = None
                if c.stage == "requested": c.stage = "inactive"
                elif c.stage == "inactive": c.stage = "ready"
                elif c.stage == "started":
                    c.stage = "locked"; c.k += 1; c.c2m = "lock"
                elif c.stage == "locked": c.stage = "ready"
        elif kind == "fault":
            self.lines.append({"act": "fault", "ch": cid, "kind": a[2]})
        elif kind == "replay":
            t = a[2]
            self.lines.append({"act": "replay", "ch": cid, "typ": t[0], "rch": t[1], "rk": t[2]})
        elif kind == "start":
            cb, mb = c.led[c.k]
            amt = self.amount(cb, mb)
            self.lines.append({"act": "start", "ch": cid, "amt": str(amt)})
            ncb, nmb = cb - amt, mb + amt
            if 0 <= ncb <= I64_MAX and 0 <= nmb <= I64_MAX:
                c.led.append((ncb, nmb)); c.stage = "started"; c.c2m = "pay"; c.pays += 1
        elif kind == "close":
            c.stage = "closed"
            self.lines.append({"act": "close", "ch": cid})
        elif kind == "restore":
            self.lines.append({"act": "restore", "ch": cid})
        elif kind == "minit":
            c.c2m = "none"; c.vbs = True; c.m2c = ("close", cid, 0); self.wire.append(c.m2c)
            self.lines.append({"act": "minit", "ch": cid})
        elif kind == "mactivate":
            c.vbs = False; c.m2c = ("token", cid, 0); self.wire.append(c.m2c)
            self.lines.append({"act": "mactivate", "ch": cid})
        elif kind == "mallow":
            # the customer is at index k (old state) while started
            k = c.k
            c.c2m = "none"; c.pend = k; c.m2c = ("close", cid, k + 1); self.wire.append(c.m2c)
            self.lines.append({"act": "mallow", "ch": cid})
        elif kind == "mcomplete":
            k = c.pend
            c.pend = None; c.c2m = "none"; c.m2c = ("token", cid, k + 1); self.wire.append(c.m2c)
            self.lines.append({"act": "mcomplete", "ch": cid})
        elif kind == "wrongrev":
            self.lines.append({"act": "wrongrev", "ch": cid, "kind": a[2]})
        return True

    def run(self, steps):
        for _ in range(steps):
            if not self.step():
                break
        return self.lines
