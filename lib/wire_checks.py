"""C15 (lossless round trips, type invariants of decoded values) and C16 (decoding never panics, aborts or over-allocates)."""
import json, os, time
from common import *
import lib_checks


def wire_model():
    ms = [tlc_model("Wire", "MC_Wire.cfg", workers=4, name="mc_wire", must_cover=["Step"])]
    # spec mutant: unchecked push / uncapped pre-allocation must violate the invariants (non-vacuity)
    r = tlc("Wire", "MC_Wire_unchecked.cfg", workers=2, name="mc_wire_mut")
    if r["ok"]:
        raise ToolError("Wire.tla with CheckedPush = CappedPrealloc = FALSE violates nothing: the decoder model is vacuous")
    return ms


def describe_wire(e):
    if e.get("kind") == "atom":
        return (f"decoding {e['type']} with {e['path']} ({e['struct']}.{e['field']}) replaced by a '{e['class']}' encoding returned {e['out']}"
                f" (re-encodes identically: {e['reencodes']})")
    if e.get("kind") == "roundtrip":
        return f"honest {e['type']} does not round-trip: decode {e['out']}, re-encodes identically: {e['reencodes']}"
    return (f"decoding {e['type']} ({e.get('kind')} {e.get('class', e.get('at', ''))} {e.get('path', '')}, {e['input_len']} input bytes) returned {e['out']}; "
            f"largest allocation request {e['max_alloc']} bytes (in proportion: {e['alloc_in_proportion']})")


def run_wire(pid, cmd, tier, seed):
    d = workdir(f"{pid}_run")
    tp = os.path.join(d, f"{cmd}.trace.ndjson")
    harness([cmd, "--out", tp, "--seed", seed, "--tier", tier], timeout=7200)
    events = [json.loads(l) for l in open(tp)]
    if not events:
        raise ToolError("wire harness produced no events")
    v = validate_trace("Trace_Wire", "Trace_Wire.cfg", tp, name=f"trace_{pid}")
    if not v["accepted"]:
        e = events[v["matched"]]
        raise Violation(pid, describe_wire(e), {"kind": "wire", "property": pid, "seed": seed, "tier": tier, "cmd": cmd, "event": e})
    return events


def check_C15(tier, seed):
    t0 = time.time()
    build_harness()
    ms = wire_model()
    ev = run_wire("C15", "c15", tier, seed)
    # decoded values are used: C20's twin runs continue every decoded customer stage; here a merchant / customer
    # configuration rebuilt from decoded parts runs a payment (protocol trace validated as in C04)
    import proto_checks, protodrv, random
    lines = protodrv.RandomDriver(random.Random(seed), faults=[], revkinds=[], w_fault=0, w_close=0.05, w_restore=1.0, w_replay=0, max_pays=2).run(40)
    proto_checks.run_scripts("C15", "restored", lines, seed, "Trace_ZkAbacus.cfg")
    types = sorted({e["type"] for e in ev})
    return lib_checks.lib_evidence("C15", tier, seed, ms, ev,
        f"one evaluation = decoding of an honest value of one of {len(types)} serializable types (all N used; keys incl. the secret key, parameters, signatures, commitments, all proof kinds, establish / pay proofs, "
        "nonce, revocation lock / secret / pair, balances, amounts, close state, closing message, configurations, the five customer stages, channel id) with one leaf of its wire form replaced by each class "
        "{identity, x not on curve, point outside the subgroup, unreduced x, cleared compression flag, scalar >= q (q, q+1, 2^256-1), 0, close tag, q-1, another valid atom, 2^63, 2^64-1, tag out of range}; "
        "TLC decides per leaf (struct, field, inside a revocation pair) whether the class must be refused; decoded values must re-encode byte for byte; distinct = (type, leaf, class)",
        "tlc Wire (decoder machine: NoPanic AllocBounded OkOnlyIfExact Terminates; fails with CheckedPush/CappedPrealloc = FALSE) + Trace_Wire (role table WireRoles.tla) on harness decodes", t0,
        lambda e: (e["type"], e.get("path"), e.get("class")),
        ["bincode's top-level deserialize accepts trailing bytes: 'canonical' is checked per atom, not for the end of input", "in the quick tier values with more than 80 leaves are sampled (first, last, every k-th leaf)"])


def check_C16(tier, seed):
    t0 = time.time()
    build_harness()
    ms = wire_model()
    ev = run_wire("C16", "c16", tier, seed)
    ev15 = run_wire("C16", "c15", tier, seed)       # every atom x every invalid class: outcome must be a value or an error, too
    return lib_checks.lib_evidence("C16", tier, seed, ms, ev + ev15,
        "one evaluation = one byte string decoded in an isolated worker process under a tracking allocator: every length prefix of every type set to {0, n-1, n+1, 2^32, 2^60, 2^64-1} (with the payload "
        "extended by valid elements where the announced count can then be read, incl. 4100 valid elements behind a hostile prefix of the public element codecs), truncation at and inside every leaf, "
        "extension, random strings (half keeping an honest prefix), enum tags, every atom x every invalid class; outcome must be ok / err (a panic or a dead worker is a violation) and the largest single "
        "allocation request must stay <= 64 x input length + 1 MiB; distinct = (type, kind, position / class)",
        "tlc Wire (NoPanic AllocBounded Terminates) + Trace_Wire on harness decodes", t0,
        lambda e: (e["type"], e.get("kind"), e.get("path", e.get("at", e.get("len"))), e.get("class"), e.get("extended")),
        ["allocation requests above 2^34 bytes are refused by the tracking allocator (the worker then aborts and the case is reported)"])


def replay_wire(pid, p):
    run_wire(pid, p["cmd"], p.get("tier", "quick"), p["seed"])


REGISTRY = {"C15": check_C15, "C16": check_C16}
REPLAY = {"wire": replay_wire}
