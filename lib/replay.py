"""bin/check <ID> --replay <file>: re-run a recorded violation against the current tree."""
import json
from common import *


def run(pid, path):
    p = json.load(open(path))
    build_harness()
    kind = p.get("kind")
    if kind == "proto":
        import proto_checks
        proto_checks.run_scripts(pid, "replay", p["script"], p["seed"], p["cfg"])
        return
    for modname in ("game_checks", "lib_checks", "wire_checks", "misc_checks"):
        try:
            mod = __import__(modname)
        except ImportError:
            continue
        if hasattr(mod, "REPLAY") and kind in mod.REPLAY:
            mod.REPLAY[kind](pid, p)
            return
    raise ToolError(f"unknown replay kind {kind}")
