"""bin/check <ID> --replay <file>: re-run a recorded violation against the current tree."""
import json, os
from common import *


def run(pid, path):
    p = json.load(open(path))
    build_harness()
    kind = p.get("kind")
    if kind == "proto":
        import proto_checks
        proto_checks.run_scripts(pid, "replay", p["script"], p["seed"], p["cfg"])
        return
    if kind == "atoms":
        import proto_checks
        d = os.path.join(WORK, "C14_run")
        os.makedirs(d, exist_ok=True)
        sp, tp, ap = os.path.join(d, "replay.script.ndjson"), os.path.join(d, "replay.proto.ndjson"), os.path.join(d, "replay.atoms.ndjson")
        proto_checks.write_script(sp, p["script"])
        harness(["proto", "--script", sp, "--out", tp, "--atoms-out", ap, "--seed", p["seed"]])
        v = validate_trace("Trace_Atoms", "Trace_Atoms.cfg", ap, name="trace_C14_replay")
        if not v["accepted"]:
            raise Violation(pid, "atoms trace rejected by Trace_Atoms", p)
        return
    if kind == "revpair":
        import proto_checks
        tp = os.path.join(WORK, "C05_run", "replay.revpair.ndjson")
        os.makedirs(os.path.dirname(tp), exist_ok=True)
        harness(["revpair", "--out", tp, "--seed", p["seed"], "--n", p.get("n", 60)])
        v = validate_trace("Trace_RevPair", "Trace_RevPair.cfg", tp, name="trace_C05_replay")
        if not v["accepted"]:
            raise Violation(pid, "revocation pair event rejected by Trace_RevPair", p)
        return
    for modname in ("game_checks", "lib_checks", "wire_checks", "misc_checks"):
        try:
            mod = __import__(modname)
        except ImportError:
            continue
        if hasattr(mod, "REPLAY") and kind in mod.REPLAY:
            mod.REPLAY[kind](pid, p)
            return
    raise ToolError(f"unknown replay kind {kind}")
