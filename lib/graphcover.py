"""Edge cover of the protocol model's reachable state graph ("one implementation test per transition").

TLC dumps the graph of MC_ZkAbacus_cover.cfg (VIEW without the bookkeeping variable, so nodes are abstract
states) with action labels that carry the arguments; every edge = one (state, public API call with arguments)
pair.  cover() returns runs (paths from the initial state) such that every edge lies on at least one run."""
import re, collections

EDGE = re.compile(r'^(-?\d+) -> (-?\d+) \[label="(.*?)",color', re.M)
NODE0 = re.compile(r'^(-?\d+) \[label=".*?",style = filled\]', re.M | re.S)


def parse_dot(path):
    txt = open(path).read()
    edges = [(int(a), int(b), lab.replace('\\"', '"')) for a, b, lab in EDGE.findall(txt)]
    m = NODE0.search(txt)
    init = int(m.group(1))
    return init, edges


def label_to_step(lab, scale):
    name, args = lab.split("(", 1)
    args = args.rstrip(")")
    ch = int(args.split(",")[0])
    if name == "Request":
        cb, mb = re.search(r"<<(\d+), (\d+)>>", args).groups()
        return {"act": "request", "ch": ch, "cb": str(int(cb) * scale), "mb": str(int(mb) * scale)}
    if name == "Deliver": return {"act": "deliver", "ch": ch}
    if name == "Fault": return {"act": "fault", "ch": ch, "kind": re.search(r'"(\w+)"', args).group(1)}
    if name == "ReplayOf":
        typ = re.search(r'"(\w+)"', args).group(1)
        rc, rk = re.findall(r",(\d+)", args.split('"')[-1])
        return {"act": "replay", "ch": ch, "typ": typ, "rch": int(rc), "rk": int(rk)}
    if name == "Start":
        neg = "neg |-> TRUE" in args
        mag = int(re.search(r"mag \|-> (\d+)", args).group(1))
        return {"act": "start", "ch": ch, "amt": str((-mag if neg else mag) * scale)}
    if name in ("Close", "Restore", "MInit", "MActivate", "MAllow", "MComplete"):
        return {"act": name.lower(), "ch": ch}
    if name == "WrongRev": return {"act": "wrongrev", "ch": ch, "kind": re.search(r'"(\w+)"', args).group(1)}
    raise ValueError("unknown edge label " + lab)


def cover(init, edges):
    out = collections.defaultdict(list)
    for i, (a, b, lab) in enumerate(edges):
        out[a].append(i)
    uncovered = set(range(len(edges)))
    runs = []
    while uncovered:
        run, u = [], init
        while True:
            cand = [i for i in out[u] if i in uncovered]
            if cand:
                # self-loops first (refused replies etc.), so that they are batched at this node
                cand.sort(key=lambda i: edges[i][1] != u)
                i = cand[0]
            else:
                # shortest path (over any edges) to a node that still has uncovered out-edges
                prev, q, seen, goal = {}, collections.deque([u]), {u}, None
                while q and goal is None:
                    x = q.popleft()
                    for j in out[x]:
                        y = edges[j][1]
                        if y in seen: continue
                        seen.add(y); prev[y] = (x, j); q.append(y)
                        if any(k in uncovered for k in out[y]):
                            goal = y; break
                if goal is None:
                    break
                path = []
                y = goal
                while y != u:
                    x, j = prev[y]; path.append(j); y = x
                for j in reversed(path):
                    run.append(j)
                u = goal
                continue
            uncovered.discard(i)
            run.append(i)
            u = edges[i][1]
        if not run:
            break
        runs.append(run)
    return runs


def scripts(dot_path, scale):
    init, edges = parse_dot(dot_path)
    runs = cover(init, edges)
    out = []
    for r in runs:
        lines = [{"act": "reset"}] + [label_to_step(edges[i][2], scale) for i in r]
        out.append(lines)
    return out, len(edges)
