"""C06 (tuple binding, cross-session, closing-message substitution) and C12 (transcript binding)."""
import json, os, time
from common import *
import game_checks


def tla_seq(xs):
    return "<<" + ", ".join('"%s"' % x for x in xs) + ">>"


def transcript_model(pid, name, atoms, responses, hashed):
    """TLC on Transcript.tla for one type with the OBSERVED hashed set; returns (states, transitions, unbound atoms)"""
    d = os.path.join(WORK, f"{pid}_cfg")
    os.makedirs(d, exist_ok=True)
    cfg = os.path.join(d, f"transcript_{name}.cfg")
    # constants are written into a tiny MC module (sequences of strings cannot be given in a cfg)
    mod = f"MC_Transcript_{name}"
    open(os.path.join(d, mod + ".tla"), "w").write(
        f"---- MODULE {mod} ----\nEXTENDS Transcript\nMCAtoms == {tla_seq(atoms)}\nMCResponses == {game_checks.tla_set(responses)}\n"
        f"MCHashed == {game_checks.tla_set(hashed)}\n====\n")
    for f in ("Transcript.tla",):
        import shutil
        shutil.copy(os.path.join(SPEC, f), d)
    open(cfg, "w").write("SPECIFICATION Spec\nCONSTANTS\n  Atoms <- MCAtoms\n  Responses <- MCResponses\n  Hashed <- MCHashed\n"
                         "INVARIANT FirstMessageHashed\nPROPERTY Binding\nCHECK_DEADLOCK FALSE\n")
    meta = workdir(f"tlc_{pid}_{name}")
    rc, out = sh(["java", "-XX:+UseParallelGC", "-Xmx4g", "-cp", "/opt/veriftools/tla/tla2tools.jar:/opt/veriftools/tla/CommunityModules-deps.jar",
                  "tlc2.TLC", "-workers", "2", "-noGenerateSpecTE", "-metadir", meta, "-cleanup", "-config", cfg, mod + ".tla"], cwd=d, timeout=600)
    import re
    m = re.search(r"(\d+) states generated, (\d+) distinct states found", out)
    st = (int(m.group(2)), int(m.group(1))) if m else (0, 0)
    ok = rc == 0 and "No error has been found" in out
    unbound = [a for a in atoms if a not in responses and a not in hashed]
    if not ok and not unbound:
        raise ToolError("Transcript model failed:\n" + out[-2000:])
    return st[0], st[1], unbound


def check_C12(tier, seed):
    t0 = time.time()
    build_harness()
    d = workdir("C12_run")
    tp = os.path.join(d, "transcript.trace.ndjson")
    harness(["transcript", "--out", tp, "--seed", seed, "--tier", tier])
    events = [json.loads(l) for l in open(tp)]
    # (M) the transcript model per type, with the observed hashed sets
    states = trans = 0
    bytype = {}
    for e in events:
        if e["ev"] == "atom":
            bytype.setdefault(e["type"], []).append(e)
    unbound_all = []
    for ty, evs in bytype.items():
        name = "".join(ch if ch.isalnum() else "_" for ch in ty)
        atoms = [e["path"] or "value" for e in evs]
        atoms = list(dict.fromkeys(atoms))
        resp = [e["path"] or "value" for e in evs if e["role"] == "response"]
        hashed = [e["path"] or "value" for e in evs if e["changed"]]
        if len(atoms) > 400:
            continue
        s, t, unbound = transcript_model("C12", name, atoms, resp, hashed)
        states += s; trans += t
        unbound_all += [(ty, a) for a in unbound]
    v = validate_trace("Trace_Transcript", "Trace_Transcript.cfg", tp, name="trace_C12")
    if not v["accepted"] or unbound_all:
        e = events[v["matched"]] if not v["accepted"] else next(x for x in events if x["ev"] == "atom" and (x["type"], x["path"] or "value") == unbound_all[0])
        what = {"atom": f"atom '{e.get('path')}' of {e.get('type')} is not bound by the challenge (in_transcript={e.get('in_transcript')}, challenge changed={e.get('changed')})",
                "pair": f"builder / prover challenge differs from proof / verifier challenge for {e.get('type')}",
                "bytesext": f"byte input of length {e.get('len')}: {e.get('variant')} leaves the challenge unchanged",
                "hash": f"challenge of {e.get('type')} is not SHA3-256(transcript) reduced",
                "ctxbyte": f"context byte {e.get('pos')} of the {e.get('proof')} proof does not influence the challenge",
                "ctxset": f"{e.get('contexts')} different contexts give only {e.get('distinct_challenges')} different challenges for one {e.get('proof')} proof",
                "hash": f"challenge of {e.get('type')}: with() and consume() disagree: {not e.get('with_eq_consume', True)}"}.get(e["ev"], "event rejected")
        raise Violation("C12", what, {"kind": "transcript", "property": "C12", "seed": seed, "tier": tier, "event": e})
    types = sorted(bytype)
    atoms_n = sum(1 for e in events if e["ev"] == "atom" and e["role"] == "nonresponse")
    cov = {"states": states, "transitions": trans, "traces_validated_against_impl": 1,
           "evaluations": len(events), "distinct_nontrivial": len({(e["type"], e.get("path")) for e in events if e["ev"] == "atom"}),
           "rule": "one evaluation = one atom of the wire form of a ChallengeInput type (or of an establish / pay proof as hashed by the merchant) replaced by another valid atom, "
                   "or one builder/proof challenge pair, or one context byte flipped; distinct = (type, atom path)",
           "samples": [e for e in events if e["ev"] == "atom"][:3] + [e for e in events if e["ev"] in ("pair", "ctxbyte")][:3],
           "types": types, "nonresponse_atoms_checked": atoms_n, "exhaustive": False,
           "checker_cmd": "tlc Transcript (FirstMessageHashed, Binding per type with observed hashed sets) + Trace_Transcript on harness observations"}
    return write_evidence("C12", tier, seed, "model_checking", cov, time.time() - t0, 0,
                          ["A3: SHA3-256 behaves as a random oracle (distinct transcripts give distinct challenges)",
                           "the consequence for soundness is decided in C01/C02 (ProofGame with the same observed sets)",
                           "for parameter sets with hundreds of atoms (range parameters) a sample incl. first/last atoms is substituted in the quick tier"])


def check_C06(tier, seed):
    t0 = time.time()
    build_harness()
    d = workdir("C06_run")
    tp = os.path.join(d, "tuple.trace.ndjson")
    harness(["tuple", "--out", tp, "--seed", seed, "--tier", tier])
    events = [json.loads(l) for l in open(tp)]
    # (M) components that enter an equation: the Open clusters of the game (a proof for pub is not accepted for pub')
    hashed_all = {"rev": {"cid": True, "tag": True, "cb": True, "mb": True, "nonce": True}, "C": {"state": True, "close": True, "pt": True}, "T": {"state": True, "close": True, "pt": True}}
    clusters = [c for c in game_checks.EST_CLUSTERS if c[1] in ("Open2", "Open1")][:2]
    states, trans, unsound = game_checks.run_game_models("C06", clusters, hashed_all, [5] if tier == "quick" else [5, 7])
    if unsound:
        raise ToolError("game model unsound with everything hashed: " + str(unsound))
    # (M) components that are only hashed: the transcript model with the observed per-component binding
    for proof in ("establish", "pay"):
        comps = list(dict.fromkeys(e["component"] for e in events if e["ev"] == "tuple" and e["proof"] == proof and e["component"] != "none"))
        hashed = [c for c in comps if all(e.get("challenge_changed", False) for e in events if e["ev"] == "tuple" and e["proof"] == proof and e["component"] == c)]
        s, t, unbound = transcript_model("C06", "tuple_" + proof, comps, [], hashed)
        states += s; trans += t
    # cross-session replays at protocol level are part of the ZkAbacus model (ReplayRefused) - reuse the quick model
    m = tlc_model("MC_ZkAbacus", "MC_ZkAbacus_quick.cfg" if tier == "quick" else "MC_ZkAbacus_thorough.cfg", workers=8, name="mc_C06")
    states += m["distinct"]; trans += m["generated"]
    v = validate_trace("Trace_Transcript", "Trace_Transcript.cfg", tp, name="trace_C06")
    if not v["accepted"]:
        e = events[v["matched"]]
        if e["ev"] == "tuple":
            what = (f"{e['proof']} proof accepted with component '{e['component']}' replaced ({e['variant']})" if e["accepted"] and e["component"] != "none"
                    else f"{e['proof']} proof: component '{e['component']}' ({e['variant']}) is not bound (challenge unchanged)" if e["component"] != "none"
                    else f"honest {e['proof']} proof rejected under its own tuple")
        else:
            what = (f"closing message {e['message']} with field {e['field']} taken from {e['source']} passes the close check" if e["accepted"]
                    else f"closing message {e['message']} rejected although unchanged")
        raise Violation("C06", what, {"kind": "tuple", "property": "C06", "seed": seed, "tier": tier, "event": e})
    # replays of recorded merchant replies across sessions / channels / merchants: protocol traces
    import proto_checks
    c = proto_checks.campaign("C06", tier, seed, "MC_ZkAbacus_quick.cfg", "MCX_ZkAbacus_sim.cfg", sim_num=4 if tier == "quick" else 30, sim_depth=45,
                              scales=[proto_checks.SCALE_BIG], drv_runs=3 if tier == "quick" else 20, drv_steps=70,
                              drv_kwargs=dict(faults=[], w_fault=0.0, w_close=0.05, w_restore=0.0, w_replay=4.0, max_pays=3))
    replays = sum(1 for x in c["classes"] if x[2] == "replay")
    tup = [e for e in events if e["ev"] == "tuple"]
    cov = {"states": states, "transitions": trans, "traces_validated_against_impl": 1 + c["runs"],
           "evaluations": len(events) + c["events"],
           "distinct_nontrivial": len({(e.get("proof", e.get("message")), e.get("component", e.get("field")), e.get("variant", e.get("source"))) for e in events}),
           "rule": "one evaluation = an honest establish / pay proof verified under a tuple with one component replaced (fresh and near values; merchant configurations sharing all parts but one), "
                   "a closing message with one field replaced by a value of another state / channel / a near value / a bit flip, or a protocol step of a replay-heavy history; "
                   "distinct = (proof or message, component, variant)",
           "samples": tup[:3] + [e for e in events if e["ev"] == "closesub"][:3],
           "components": sorted({e["proof"] + "." + e["component"] for e in tup}), "replay_classes": replays, "exhaustive": False,
           "checker_cmd": "tlc MC_Game (Open clusters) + Transcript (tuple components) + MC_ZkAbacus (ReplayRefused) + Trace_Transcript / Trace_ZkAbacus on harness traces"}
    return write_evidence("C06", tier, seed, "model_checking", cov, time.time() - t0, 0,
                          ["A1-A3 (DESIGN.md section 8)", "channel ids are compared as scalars: ids congruent modulo the group order are identified by the library (not a single-component change reachable by a bit flip)"])


def check_C17(tier, seed):
    import lib_checks
    t0 = time.time()
    build_harness()
    ms = [tlc_model("MC_Ledger", f"MC_Ledger_W{w}.cfg", workers=8, name="mc_ledger") for w in ([3, 4] if tier == "quick" else [3, 4, 5])]
    # unbounded number of payments at true 64-bit constants: inductive invariant with Apalache (extra; the mutant must fail)
    ok, msg = apalache_inductive(os.path.join(SPEC, "apalache", "LedgerInd.tla"), "Init", "IndInit", "IndInv")
    if not ok:
        raise ToolError("Apalache could not establish the inductive ledger invariant:\n" + msg)
    okm, _ = apalache_inductive(os.path.join(SPEC, "apalache", "LedgerIndMut.tla"), "Init", "IndInit", "IndInv")
    if okm:
        raise ToolError("the mutated ledger (upper bound of the merchant balance dropped) still satisfies the inductive invariant: vacuous")
    ev = lib_checks.run_lib("C17", "ledger", tier, seed, "Trace_Ledger", lambda e: True)
    return lib_checks.lib_evidence("C17", tier, seed, ms, ev,
        "one evaluation = one call of CustomerBalance/MerchantBalance::try_new, PaymentAmount::pay_merchant/pay_customer, MerchantBalance::try_add, decoding of a raw i64 amount, payment application "
        "(Ready::start on states whose balances are patched into the image) or allow_payment under a wire-decoded amount, over the lattice {0,1,2,2^31,2^32,2^62,2^63-2,2^63-1,2^63,2^63+1,2^64-1} x signed "
        "counterparts incl. i64::MIN + amounts relative to the balances + random values, harness built with overflow checks; TLC recomputes every result with Ledger.tla on 64-bit limb numbers; "
        "distinct = (operation, operands, outcome)",
        "tlc MC_Ledger (every input of a W-bit machine, W=3..5: TryNewExact PayCtorsExact ApplyExact Conservation TryAddExact EncHom LimbRefines) + Trace_Ledger"
        " + apalache-mc LedgerInd (inductive invariant IndInv at MaxBal = 2^63-1, any number of payments)", t0,
        lambda e: json.dumps({k: e[k] for k in e if k not in ("v", "ncb", "nmb")}, sort_keys=True),
        ["limb arithmetic (Big.tla) refines integer arithmetic: model-checked in MC_Ledger with base 4", "the scalar encoding is crate-private and is exercised through allow_payment (accept for the proven amount, clean refusal otherwise)"])


def check_C18(tier, seed):
    import lib_checks
    t0 = time.time()
    build_harness()
    ms = [tlc_model("Rng", "MC_Rng.cfg", workers=4, name="mc_rng", must_cover=["NonceDraw", "KeyDraw"]),
          tlc_model("MC_ZkAbacus", "MC_ZkAbacus_quick.cfg", workers=8, name="mc_C18")]
    ev = lib_checks.run_lib("C18", "c18", tier, seed, "Trace_Rng", lambda e: True)
    return lib_checks.lib_evidence("C18", tier, seed, ms, ev,
        "one evaluation = Nonce::new on a stream beginning with k = 0..3 draws congruent to the close tag (close tag + j*q as 64-byte values, j = 0..); Requested::new / Ready::start with such a draw at every "
        "scalar-draw position; decoding of the close tag as nonce; a pay token presented as closing signature for the close state sharing its fields and a closing signature used as pay token (library "
        "paths and independent PS evaluation on both message layouts); channel-id derivation with each of the five inputs changed alone (bytes, same-length changes, extension, truncation, empty) and print/parse; "
        "distinct = (event kind, case)",
        "tlc Rng (NonceNeverClose DrawCount Terminates) + MC_ZkAbacus (TagSeparation) + Trace_Rng on harness executions", t0,
        lambda e: json.dumps({k: e[k] for k in e if k in ("ev", "close_prefix", "multiple_of_q_added", "call", "pos", "j", "case", "input", "variant", "history")}, sort_keys=True),
        ["channel ids are modelled as a hash of the literal concatenation of the inputs: moving bytes between the two account-info inputs changes two inputs and is not claimed",
         "SHA3-256 collision resistance"])


def check_C19(tier, seed):
    import lib_checks
    t0 = time.time()
    build_harness()
    ms = [tlc_model("Rng", "MC_Rng.cfg", workers=4, name="mc_rng", must_cover=["NonceDraw", "KeyDraw"]),
          tlc_model("PSig", "MC_PSig_N1.cfg", workers=8, name="mc_psig_c19")]
    ev = lib_checks.run_lib("C19", "c19", tier, seed, "Trace_Rng", lambda e: True)
    return lib_checks.lib_evidence("C19", tier, seed, ms, ev,
        "one evaluation = KeyPair<N>::new (N in {1,2,3,5,8,13}), PedersenParameters::new (G1, G2), RangeConstraintParameters::new or merchant::Config::new on a stream with an all-zero window at every "
        "scalar-draw offset (widths 1..2, 3 thorough): secret scalars non-zero, public elements non-identity, G1/G2 halves share logarithms (pairings and scalar multiples), the value passes the library's own "
        "decoder, a signature made with the key verifies, every digit signature is valid and uses a fresh base, validate() is Ok; distinct = (generator, offset, width)",
        "tlc Rng (KeyScalarsNonZero DrawCount Terminates) + PSig (keys with non-zero scalars) + Trace_Rng on harness executions", t0,
        lambda e: (e["what"], e["offset"], e["width"]),
        ["group-element sampling of bls12_381 never returns the identity (read in the registry source); zero windows therefore target scalar draws, and raw zero bytes for the Pedersen samplers"])


def replay_transcript(pid, p):
    tier = p.get("tier", "quick")
    if pid == "C12":
        check_C12(tier, p["seed"])
    else:
        check_C06(tier, p["seed"])


REGISTRY = {"C06": check_C06, "C12": check_C12, "C17": check_C17, "C18": check_C18, "C19": check_C19}
REPLAY = {"transcript": replay_transcript, "tuple": replay_transcript}
