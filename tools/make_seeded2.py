#!/usr/bin/env python3
"""Populate /verif/seeded/<ID>-<C|D>/ from the second batch of agent deliveries per property:
   round 2 (work/pending2, work/confirm2; C01-C06, C14, C20) and round 3 (work/pending3, work/confirm3; the others).
   A -> C, B -> D; round 4 (work/pending4, all properties): A -> E, B -> F; round 5 (work/pending5): A -> G, B -> H; round 6 (work/pending6, ten properties): A -> I, B -> J; round 7 (work/pending7, eight properties, one change asked for): A -> K, B -> L.  CAUGHT2: results of tools/try_mutant.sh after the strengthenings (quick tier, seed 1)."""
import json, os, shutil, glob, sys
V = os.path.dirname(os.path.dirname(os.path.abspath(__file__)))
CAUGHT2 = json.load(open(os.path.join(V, "tools/caught2.json")))
LETS = {"2": {"A": "C", "B": "D"}, "3": {"A": "C", "B": "D"}, "4": {"A": "E", "B": "F"}, "5": {"A": "G", "B": "H"}, "6": {"A": "I", "B": "J"}, "7": {"A": "K", "B": "L"}}
for rnd in ("2", "3", "4", "5", "6", "7"):
    LET = LETS[rnd]
    for d in sorted(glob.glob(os.path.join(V, f"work/pending{rnd}/C*"))):
        pid = os.path.basename(d)
        for X in "AB":
            if not os.path.exists(f"{d}/{X}.patch.diff"):
                continue
            conf = f"{V}/work/confirm{rnd}/{pid}_{X}.json"
            if not os.path.exists(conf):
                print("not confirmed yet:", pid, X); continue
            c = json.load(open(conf))
            ok = c.get("suite_passed_failed", "").split()[:2] == ["106", "0"] and c.get("demo_rc_with_change", 0) != 0 and c.get("demo_rc_without_change", 1) == 0
            if not ok:
                print("NOT CONFIRMED:", pid, X, c); continue
            key = f"{pid}-{LET[X]}"
            out = f"{V}/seeded/{key}"
            shutil.rmtree(out, ignore_errors=True)
            os.makedirs(out)
            shutil.copy(f"{d}/{X}.patch.diff", f"{out}/patch.diff")
            for cand in glob.glob(f"{d}/{X}.demo*") + glob.glob(f"{d}/run_demo*.sh"):
                if os.path.isdir(cand):
                    shutil.copytree(cand, f"{out}/" + os.path.basename(cand), ignore=shutil.ignore_patterns("target", "Cargo.lock"))
                else:
                    shutil.copy(cand, out)
            meta = json.load(open(f"{d}/{X}.meta.json"))
            meta.update({"breaks_property": pid, "delivered_as": f"{X} of round {rnd}",
                         "origin": "fresh sub-agent given only the property text, the summaries of the earlier changes for that property (to avoid repeats) and a scratch worktree",
                         "confirmed_by_me": {"worktree": (f"/tmp/zkmut-{pid} (removed)" if rnd == "7" else f"/tmp/zkmut{rnd}-{pid} (removed)"), "suite_with_change": "106 passed (104 tests + 2 doctests), 0 failed",
                                              "demo_exit_with_change": c["demo_rc_with_change"], "demo_exit_without_change": c["demo_rc_without_change"],
                                              "command": f"tools/confirm_mutants{rnd}.sh " + pid},
                         "checks_run": "tools/try_mutant.sh <patch> <ids> (apply to /repo, bin/check --tier quick, git checkout)",
                         "caught_by": {k: v for k, v in CAUGHT2.get(key, {}).items() if not k.startswith("_")},
                         "note": CAUGHT2.get(key, {}).get("_note", "")})
            json.dump(meta, open(f"{out}/meta.json", "w"), indent=1)
            print("seeded", key)
