#!/usr/bin/env python3
"""Print the sub-agent prompt for one property id (property text only, nothing from /verif)."""
import json, sys
pid = sys.argv[1]
for l in open('/verif/properties.jsonl'):
    p = json.loads(l)
    if p['id'] == pid:
        break
else:
    sys.exit('no such property')
wt = f'/tmp/zkmut-{pid}'
print(f"""You are helping to evaluate a verification framework by producing realistic, subtle bugs ("seeded changes") in a Rust crypto library. Work ONLY inside the git worktree {wt} (a checkout of boltlabs-inc/libzkchannels-crypto: crates zkchannels-crypto and zkabacus-crypto). Do not read or write anything under /verif or /repo, and do not look for other people's notes; you may read the cargo registry sources under ~/.cargo if you need dependency sources. The machine is offline: always pass --offline to cargo. Keep cargo's output inside the worktree (default target dir {wt}/target).

THE PROPERTY the library is supposed to satisfy:

  Title: {p['title']}
  Statement: {p['statement']}
  Quantified over: {p['quantifier']['text']}
  Relevant files: {', '.join(p['anchors']['files'])}

YOUR TASK: produce TWO different source changes (A and B, different mechanisms / different code sites) to the library, each of which
  1. BREAKS the property above (some input / history / fault sequence / randomness stream exists for which the statement is false with the change and true without it),
  2. still COMPILES and still PASSES the entire existing test suite: `cd {wt} && cargo test --workspace --no-fail-fast --offline` (104 unit/integration tests + doctests must all pass; run it yourself and confirm),
  3. is REALISTIC (the kind of slip a maintainer could make in a refactor or "optimisation": a dropped or weakened check, a wrong field/state used, a conjunct removed, an off-by-one, an operation reordered, a value not re-randomised, a field not hashed/serialised, ...) and SUBTLE: it must need something specific to manifest — a particular multi-step sequence of operations, a fault or bad reply at a particular point, an unusual or boundary input, an adversarially built message, a particular randomness stream, or two cooperating sites that each look fine alone. Do NOT produce changes that ordinary honest use (one establish + one payment) would expose at once, and do not produce changes that only alter comments, error strings, Debug output or performance.
  Do not touch the tests, Cargo.toml features named verif-hooks, or the code guarded by `cfg(feature = "verif-hooks")`.

For each change X in {{A, B}} deliver, in {wt}/OUT/:
  - X.patch.diff : `git diff` of the change against the worktree HEAD (library sources only; it must apply with `git apply` to a clean checkout),
  - X.demo.rs (or a small directory X.demo/ with Cargo.toml + src/main.rs using path dependencies on the two crates, optional feature "bincode" is available offline; crates rand, bls12_381 0.4, ff 0.9, group 0.9, sha3 0.9, serde, bincode 1.3.3 are in the offline cache): a demonstration — an extra test file or a small program — that FAILS (non-zero exit / failing assertion) with the change applied and PASSES on the unmodified worktree. If private items are needed, the demo may be a `#[cfg(test)]`-style test added in a separate file under the crate's tests/ directory or a test module appended to a source file, but keep it separate from X.patch.diff. If you need a Cargo.lock for a demo crate, copy {wt}/Cargo.lock next to its Cargo.toml (cargo cannot resolve online).
  - X.meta.json : {{"property": "{pid}", "summary": one sentence on what was changed, "needs": what specific input/sequence/fault/randomness is needed for the violation to manifest, "why_tests_pass": one sentence, "demo_cmd": the exact command(s) to run the demo, "files_changed": [...]}}

Procedure you must follow and report: (a) make change, (b) run the full test suite with the change -> all pass, (c) run the demo with the change -> fails, (d) revert the change (`git -C {wt} checkout -- .` or `git stash`), run the demo -> passes. Leave the worktree's tracked files UNMODIFIED at the end (both patches reverted; the OUT/ directory holds everything). Finally reply with a short report: for A and B, the summary, the needs, and the observed results of steps (b), (c), (d).""")
