#!/usr/bin/env python3
"""Regenerate /verif/MANIFEST.json from the table below (kept in one place so that it is always valid)."""
import json, os
V = os.path.dirname(os.path.dirname(os.path.abspath(__file__)))
TRUST = ("TLA+ models are bounded (constants in spec/*.cfg); cryptography is symbolic / algebraic-group-model over small prime fields "
         "(assumptions A1-A4 in DESIGN.md section 8); bls12_381, sha3, bincode, serde and the harness's independent relation evaluator are trusted")
CHECKS = {
 "C01": ("model_checking", "TLC on ProofGame.tla (2-special soundness per constraint cluster, hashed sets observed from the code) + adversarial establish prover validated by TLC",
         "the challenge-recorder hook is used to OBSERVE which non-response atoms of an establish proof the merchant hashes; TLC decides Sound/Dichotomy/Complete of every cluster of "
         "EstablishProof::verify for exactly those hashed sets; ~200 forger strategies (slot x side x lie x {lying, unlinked, late revealed scalar, simulated T, simulated C}) are executed "
         "against merchant::Config::initialize and TLC validates each verdict against the independently evaluated relations, the game model and the truth of the statement; on acceptance the "
         "returned signatures are unblinded and checked on the hidden tuples", "6 C01"),
 "C02": ("model_checking", "TLC on ProofGame.tla (clusters of PayProof::verify incl. range link) + adversarial pay prover on real pay tokens validated by TLC",
         "as C01 for PayProof / allow_payment: every false variant of the statement (wrong nonce, wrong amount, out-of-range balances, foreign channel id, close tag replaced, mismatched old/new lock, "
         "foreign or tampered pay token, identity signature via chosen randomness) x method; TLC decides Sound incl. the range link cluster and validates every real verdict", "6 C02"),
 "C03": ("model_checking", "TLC on ZkAbacus.tla + trace validation of fault-injected real runs",
         "TLC model-checks ZkAbacus.tla (CanClose, RefusedIsInert, ReleaseOnlyOnAccept, ClosedOnUnrevoked, FaultRefused, ReplayRefused, and the dispute outcomes DisputeCustomerSafe, DisputePunishOld, MerchantPayoffBound, OutcomeOnlyByCustomer) exhaustively within small bounds; "
         "TLC simulation walks of the same spec and a weighted random driver are replayed into the real customer/merchant with every fault kind at every reply point, "
         "and every recorded API call (outcome, stage, balances, byte-image unchanged flag, close probe on a copy, disclosed lock ids) is validated by TLC against Trace_ZkAbacus.tla "
         "with the spec's invariants evaluated at every event", "6 C03"),
 "C04": ("model_checking", "TLC on ZkAbacus.tla/Ledger.tla (safety + liveness) + trace validation of honest runs on the 64-bit boundary lattice",
         "fault-free configuration of ZkAbacus.tla model-checked including liveness under fairness; honest runs at scale 1 and at the exact scale (2^63-1)/7 and boundary-directed random runs "
         "are executed on the real code and TLC recomputes the ideal ledger with limb arithmetic (Big.tla) at every event", "6 C04"),
 "C05": ("model_checking", "TLC on ZkAbacus.tla (TokenIffOpens) and RevPair.tla + trace validation of wrong-revocation candidates and crafted pairs",
         "complete_payment is driven with wrong candidates (repeated with identical material) before the right one in TLC-generated and random histories and validated by TLC; revocation pairs are "
         "generated under chosen secrets and decoded from crafted bytes (incl. non-canonical digests at the modulus boundary) and validated against RevPair.tla with independently recomputed SHA3 facts", "6 C05"),
 "C06": ("model_checking", "TLC on ProofGame (Open clusters), Transcript.tla (tuple components) and ZkAbacus.tla (ReplayRefused) + single-component substitutions validated by TLC",
         "an honest establish / pay proof is verified under every single-component substitution of its tuple (merchant configurations sharing all parts but one are built with from_parts; fresh and near values; "
         "channel-id bit flips; context bytes), closing messages get each field replaced by values of other states / channels, and replay-heavy protocol histories are validated against ZkAbacus.tla", "6 C06"),
 "C07": ("model_checking", "TLC on PSig.tla (exponent instance, provenance calculus) + operation chains on the real code validated by TLC",
         "PSig.tla is model-checked for every key, message, randomiser (incl. 0) and chain up to length 3 over Z_5 (Verify <=> provenance valid, single-coordinate changes rejected, identity never verifies); "
         "~1000 real chains for N in {1,2,3,5,8,13} with scripted randomness are validated against the provenance calculus and the independently evaluated pairing equation", "6 C07"),
 "C08": ("model_checking", "TLC on PSig.tla (BlindSign from verified request) + honest / tampered signature requests validated by TLC",
         "every field of a signature request proof, the challenge and the key are tampered (must yield no blind-signable value); honest requests must yield one whose blind signature unblinds to a "
         "signature on exactly the proven message; verdicts must equal the independently evaluated Schnorr relation", "6 C08"),
 "C09": ("model_checking", "TLC on Pedersen.tla (all parameters, messages, blinding factors over Z_3/Z_5) + real commitments vs independent accumulation validated by TLC",
         "Pedersen.tla proves exactness, single-perturbation binding and additivity exhaustively in the exponent instance; real commitments for both groups, all N, boundary classes (incl. identity-valued commitments, blinding factor 1) are checked against an independent computation", "6 C09"),
 "C10": ("model_checking", "TLC on Schnorr.tla / RangeC.tla (completeness) + honest proofs and documented patterns on the real prover validated by TLC",
         "completeness is model-checked exhaustively over Z_3 (Z_5 thorough); ~900 honest proofs (4 kinds x N x message classes x linked subsets) and every documented constraint pattern incl. boundary range values are executed and validated", "6 C10"),
 "C11": ("model_checking", "TLC on Schnorr.tla (exactness, perturbation, simulation, identity signature) + verifier calls with independent relation atoms validated by TLC",
         "every verifier call (honest, each single-field perturbation incl. small-order points, wrong challenge / parameters, simulated transcripts, degenerate signatures through chosen randomness) must return exactly the conjunction of the independently evaluated Schnorr, well-formedness and pairing relations", "6 C11"),
 "C13": ("model_checking", "TLC on RangeC.tla + prover boundary set, attacker-assembled constraints and parameter substitutions validated by TLC",
         "RangeC.tla is model-checked (round trip, refusal of negatives, accepted => in range, maximum forgeable value); the real prover / verifier / validate() are driven over the i64 boundary set, constraints assembled from published digit signatures and single-signature substitutions", "6 C13"),
 "C12": ("model_checking", "TLC on Transcript.tla with observed hashed sets + per-atom substitution observations validated by TLC",
         "for every ChallengeInput type and both composite proofs every non-response atom of the wire form is replaced by another valid atom and the recorded transcript / challenge is compared; "
         "builder challenge = proof challenge and challenge = SHA3(transcript) are checked; TLC decides Binding/FirstMessageHashed on Transcript.tla for the observed sets", "6 C12"),
 "C14": ("model_checking", "TLC on AtomFlow.tla (NoReuse, NoSecretLeak; three spec mutants) and Hiding.tla (commitment-scalar space; two spec mutants) + atoms of real multi-channel histories and the commitment scalars recovered from honest proofs validated by TLC",
         "every 32/48/96-byte atom of every message of real histories (3 channels, refused replies, closes from every stage, one close under a zero re-randomiser) is interned and TLC checks against the "
         "merchant's accumulated view and the secrets held in the customer state (Trace_Atoms: NoReuse, NoSecretLeak); the rank of the commitment-scalar vectors of honest establish / pay proofs equals the number of free scalars of the design (Trace_Hiding)", "6 C14"),
 "C15": ("model_checking", "TLC on Wire.tla / WireRoles.tla (role table + decoder machine) + every leaf x every encoding class of every serializable type validated by TLC",
         "62+ types of both crates: honest values round-trip byte for byte; each leaf of each wire form is replaced by each invalid / boundary class and TLC decides from the role table (struct, field, inside a revocation pair) "
         "whether decoding must fail; decoded customer stages are continued (C20 twins) and a restored customer runs payments", "6 C15"),
 "C16": ("model_checking", "TLC on Wire.tla (decoder step machine: NoPanic, AllocBounded; spec mutant must fail) + hostile byte strings decoded in isolated workers validated by TLC",
         "length prefixes {0,n-1,n+1,2^32,2^60,2^64-1} (payload extended with valid elements, 4100 elements behind hostile prefixes of the public codecs), truncations, extensions, tags, every atom x invalid class and random strings are decoded "
         "in worker processes under a tracking allocator: outcome must be a value or an error and the largest allocation request must stay in proportion to the input", "6 C16"),
 "C17": ("model_checking", "TLC on Ledger.tla for every input of a W-bit machine + real 64-bit operations validated by TLC with limb arithmetic",
         "MC_Ledger checks totality, exactness, error kinds, conservation, the scalar-encoding homomorphism and the limb-arithmetic refinement exhaustively for W = 3..5; ~8000 real calls on the 64-bit boundary lattice "
         "(constructors, try_add, payment application through Ready::start, wire-decoded amounts incl. i64::MIN through allow_payment, overflow checks on) are recomputed by TLC", "6 C17"),
 "C18": ("model_checking", "TLC on Rng.tla (nonce loop) and ZkAbacus.tla (TagSeparation) + crafted randomness streams, type confusion and channel-id inputs validated by TLC",
         "Nonce::new and the state constructors are run on streams containing values congruent to the close tag (close + j*q) at every scalar-draw position; pay tokens and closing signatures are swapped "
         "through the library paths and evaluated independently on both message layouts; every channel-id input is changed alone", "6 C18"),
 "C19": ("model_checking", "TLC on Rng.tla (key scalar loop) + key / parameter generation under zero windows at every scalar-draw position validated by TLC",
         "KeyPair<N>, Pedersen parameters, range parameters and merchant::Config are generated on streams with all-zero windows at every scalar-draw offset; non-zero secrets, non-identity public elements, "
         "shared G1/G2 logarithms (pairings), decoder acceptance, valid signatures, validate() and fresh signature bases are logged and validated", "6 C19"),
 "C20": ("model_checking", "TLC on ZkAbacus.tla (Restore refines stuttering) + twin execution at every step validated by TLC",
         "every customer API call of every explored history is executed on the live object and on a twin restored from its bincode image with the same randomness; TLC validates that restores are "
         "stuttering steps and that the twin agrees byte-for-byte (aspect twin) at every event", "6 C20"),
}
NA_REASON = "check under construction in this round (specification and harness parts exist or are planned in DESIGN.md section 6); not claimed until its command runs clean"
ALL = [f"C{i:02d}" for i in range(1, 21)]
m = {
 "version": 1,
 "setup_cmd": "cd /verif/harness && cargo build --release --offline",
 "hooks": {"guard": "cargo feature `verif-hooks` of zkchannels-crypto",
           "enable": "the harness (/verif/harness/Cargo.toml) depends on /repo/zkchannels-crypto by path with features [\"bincode\", \"verif-hooks\"]; every check rebuilds it with `cargo build --release --offline`",
           "baseline_off_cmd": "cd /repo && cargo test --workspace --no-fail-fast --offline",
           "source_commits": ["9f0c611"], "add_only": True},
 "engines": [{"name": "tlc", "path": "/verif/spec", "serves_properties": sorted(CHECKS), "kind_free_text": "explicit TLA+ specifications model-checked with TLC 1.8.0; Trace_*.tla validate implementation traces"},
             {"name": "zkverif", "path": "/verif/harness", "serves_properties": sorted(CHECKS), "kind_free_text": "Rust conformance harness: replays specification behaviours into the real code and records ndjson traces"}],
 "checks": [], "not_applicable": [],
 "notes": "bin/check <ID> --tier quick|thorough; exit 0 held / 1 VIOLATION / 2 tool error. Known findings: known_findings.json. See DESIGN.md.",
}
for pid in ALL:
    if pid in CHECKS:
        cat, tech, text, ref = CHECKS[pid]
        m["checks"].append({"property_id": pid, "quick_cmd": f"bin/check {pid} --tier quick", "thorough_cmd": f"bin/check {pid} --tier thorough",
                            "evidence_file": f"/verif/evidence/{pid}.json", "replay_cmd_template": f"bin/check {pid} --replay {{path}}",
                            "engine": "tlc", "level_claimed": {"category": cat, "text": text, "design_ref": ref},
                            "level_note": TRUST, "technique": tech})
    else:
        m["not_applicable"].append({"property_id": pid, "reason": NA_REASON})
json.dump(m, open(os.path.join(V, "MANIFEST.json"), "w"), indent=1)
print("checks:", [c["property_id"] for c in m["checks"]])
