#!/bin/sh
# usage: mkworktree.sh <name>   -> creates /tmp/zkmut-<name> as a detached worktree of /repo HEAD, with Cargo.lock
set -e
d=/tmp/zkmut-$1
git -C /repo worktree remove --force "$d" 2>/dev/null || true
rm -rf "$d"
git -C /repo worktree add --detach "$d" HEAD >/dev/null 2>&1
cp /repo/Cargo.lock "$d/Cargo.lock"
mkdir -p "$d/OUT"
echo "$d"
