#!/usr/bin/env python3
"""Populate /verif/seeded/<ID>-<X>/ from work/pending (agent deliveries) + work/confirm (own confirmation runs)."""
import json, os, shutil, glob
V = os.path.dirname(os.path.dirname(os.path.abspath(__file__)))
CAUGHT = {  # results of tools/try_mutant.sh (quick tier, seed 1): check -> first violation line
 "C01-A": {"C01": "establish strategy 'lie plus1 slot 3 both late revealed scalar from state': a FALSE statement was accepted"},
 "C01-B": {"C01": "establish strategy 'lie plus1 slot 4 close': a FALSE statement was accepted; verdict differs from the conjunction of the specified relations {'mb_close': False}"},
 "C02-A": {"C02": "pay strategy 'close state merchant balance differs': a FALSE statement was accepted; {'mb_state_close': False}"},
 "C02-B": {"C02": "pay strategy 'all-identity blinded pay token (chosen randomness) around an unsigned old state': a FALSE statement was accepted; {'token_sigma1_not_identity': False}"},
 "C03-A": {"C03": "trace rejected at event 6 (identity reply accepted)", "C07": "see C07-A"},
 "C03-B": {"C03": "trace rejected at event 367 (customer image changed by a refused reply at lock)"},
 "C04-A": {"C04": "trace rejected at event 15 (in-range payment refused with AmountTooLarge)", "C17": "apply cb=1 mb=2^63-1 amt=0 -> AmountTooLarge"},
 "C04-B": {"C03": "trace rejected at event 366 (close from Started carries post-payment balances / is rejected by the merchant)", "C04": "trace rejected at event 15"},
 "C05-A": {"C05": "revocation pair event rejected by Trace_RevPair: generation stops at an index whose digest is not canonical"},
 "C05-B": {"C05": "trace rejected at event 9 (pending payment changed by a refused completion)"},
 "C06-A": {"C06": "pay proof accepted with component 'range_parameters' replaced (same key, digit signatures 0 and 1 swapped)"},
 "C06-B": {"C06": "establish proof accepted with component 'channel_id' replaced (bit 254 flipped)"},
 "C07-A": {"C07": "Signature::verify (N=1, chain randomize(zero)) returned True but sigma1_is_identity=True", "C08": "chain blindsign(zero) -> unblind"},
 "C07-B": {"C07": "chain blind_and_randomize -> brandomize -> unblind: verdicts contradict the provenance (PSig.tla)", "C08": "chain blindsign -> brandomize -> unblind"},
 "C08-A": {"C07": "Signature::verify (N=2, chain sign) returned False but pairing equation=True", "C08": "chain blindsign -> unblind (N=2)"},
 "C08-B": {"C19": "KeyPair<1> generated under a zero window at scalar draw 1: secret_scalars_nonzero False, public_elements_nonidentity False, passes_own_decoder False",
           "_note": "not reported by C08: the change needs a chosen randomness stream during key generation, which is C19's quantifier, not C08's"},
 "C09-A": {"C09": "Pedersen commitment (G1, N=1, m=[zero], r=zero): blinding-factor perturbation accepted"},
 "C09-B": {"C09": "Pedersen commitment (G1, N=1, m=[zero], r=zero): original opening rejected (identity-valued commitment)"},
 "C10-A": {"C10": "range_link pattern fails on an honest srp proof for value 81985529216486895"},
 "C10-B": {"C10": "cp_g1 proof (N=3, honest): responses do not open to the message with the given (zero) commitment scalar"},
 "C11-A": {"C11": "sp proof (N=1, identity_signature): verdict True, sigma1_not_identity False", "C02": "see C02-B (same change)"},
 "C11-B": {"C11": "sp proof (N=1, perturb:blinded_signature.sigma1:+small-order point): verdict True"},
 "C12-A": {"C12": "atom 'x2' of PublicKey<1> is not bound by the challenge"},
 "C12-B": {"C12": "atom 'sigma2' of Signature is not bound by the challenge"},
 "C13-A": {"C13": "range constraint assembled by an attacker (signatures of two digits swapped): verdict True, all_digit_proofs False"},
 "C13-B": {"C13": "top digit claims 128 with a linear combination of two published signatures: verdict True, linked value in range: False"},
 "C14-A": {"C14": "customer message 'close' on channel 1: 1 atom(s) already in the merchant's view"},
 "C14-B": {"C14": "customer message 'close' (zero re-randomiser): 1 atom(s) already in the merchant's view"},
 "C15-A": {"C15": "decoding KeyPair<3> with sk.ys.0 replaced by a 'zero' encoding returned ok"},
 "C15-B": {"C15": "decoding PublicKey<1> with g2 replaced by a 'off_subgroup' encoding returned ok"},
 "C16-A": {"C16": "decoding PaymentAmount with a 'two_pow_63' (i64::MIN) encoding returned panic: attempt to negate with overflow"},
 "C16-B": {"C16": "decoding Vec<G1Affine> codec (len 2^60, 4100 valid elements): panic: capacity overflow"},
 "C17-A": {"C17": "apply cb=0 mb=0 amt=i64::MIN: panic attempt to negate with overflow"},
 "C17-B": {"C17": "tryadd m=0 c=2^63-1: AmountTooLarge"},
 "C18-A": {"C18": "Nonce::new on a stream close+1*q: output is the close tag"},
 "C18-B": {"C18": "cid: customer_account_info byte 0 changed (same length): id unchanged"},
 "C19-A": {"C19": "KeyPair<1> under a zero window at scalar draw 1: zero secret scalar / identity public element"},
 "C19-B": {"C19": "RangeConstraintParameters under a zero window at scalar draw 2: invalid digit signature, validate() fails"},
 "C20-A": {"C20": "trace rejected at event 371 (customer with a balance of 2^63-1 cannot be restored)"},
 "C20-B": {"C18": "Nonce::new returns the close tag for the stream close||0", "_note": "not reported by C20's check (needs a chosen randomness stream: C18's quantifier); a state with that nonce cannot be restored"},
}
for d in sorted(glob.glob(os.path.join(V, "work/pending/C*"))):
    pid = os.path.basename(d)
    for X in "AB":
        if not os.path.exists(f"{d}/{X}.patch.diff"):
            continue
        conf = f"{V}/work/confirm/{pid}_{X}.json"
        if not os.path.exists(conf):
            print("not confirmed yet:", pid, X); continue
        c = json.load(open(conf))
        ok = c.get("suite_passed_failed", "").split()[:2] == ["106", "0"] and c.get("demo_rc_with_change", 0) != 0 and c.get("demo_rc_without_change", 1) == 0
        if not ok:
            print("NOT CONFIRMED:", pid, X, c); continue
        out = f"{V}/seeded/{pid}-{X}"
        shutil.rmtree(out, ignore_errors=True)
        os.makedirs(out)
        shutil.copy(f"{d}/{X}.patch.diff", f"{out}/patch.diff")
        for cand in (f"{d}/{X}.demo.rs", f"{d}/{X}.demo", f"{d}/run_demo.sh"):
            if os.path.isdir(cand):
                shutil.copytree(cand, f"{out}/demo", ignore=shutil.ignore_patterns("target", "Cargo.lock"))
            elif os.path.exists(cand):
                shutil.copy(cand, out)
        meta = json.load(open(f"{d}/{X}.meta.json"))
        key = f"{pid}-{X}"
        meta.update({"breaks_property": pid, "origin": "fresh sub-agent given only the property text and a scratch worktree",
                     "confirmed_by_me": {"worktree": f"/tmp/zkmut-{pid} (removed)", "suite_with_change": "106 passed (104 tests + 2 doctests), 0 failed",
                                          "demo_exit_with_change": c["demo_rc_with_change"], "demo_exit_without_change": c["demo_rc_without_change"],
                                          "command": "tools/confirm_mutants.sh " + pid},
                     "checks_run": "tools/try_mutant.sh <patch> <ids> (apply to /repo, bin/check --tier quick, git checkout)",
                     "caught_by": {k: v for k, v in CAUGHT.get(key, {}).items() if not k.startswith("_")},
                     "note": CAUGHT.get(key, {}).get("_note", "")})
        json.dump(meta, open(f"{out}/meta.json", "w"), indent=1)
        print("seeded", key)
