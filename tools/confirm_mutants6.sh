#!/bin/bash
# usage: confirm_mutants2.sh <ID>...   round 6: re-confirms /verif/work/pending6/<ID>/{A,B} in the scratch worktree /tmp/zkmut6-<ID>
#   suite passes with the change, demo fails with it, demo passes without it.  Results: /verif/work/confirm6/<ID>_<X>.json
mkdir -p /verif/work/confirm6
for id in "$@"; do
  wt=/tmp/zkmut6-$id
  rm -rf $wt; git -C /repo worktree prune
  git -C /repo worktree add --detach $wt HEAD >/dev/null 2>&1
  cp /repo/Cargo.lock $wt/Cargo.lock; mkdir -p $wt/OUT; cp -r /verif/work/pending6/$id/. $wt/OUT/
  for X in A B; do
    [ -f $wt/OUT/$X.patch.diff ] || continue
    demo=$(python3 -c "import json;print(json.load(open('$wt/OUT/$X.meta.json'))['demo_cmd'].split('#')[0].split('; (afterwards')[0])")
    (cd $wt && git apply OUT/$X.patch.diff) || { echo "{\"id\":\"$id\",\"x\":\"$X\",\"error\":\"patch does not apply\"}" > /verif/work/confirm6/${id}_$X.json; continue; }
    suite=$(cd $wt && cargo test --workspace --no-fail-fast --offline 2>&1 | grep -E "^test result" | awk '{p+=$4; f+=$6} END {print p" "f}')
    bash -c "$demo" > $wt/OUT/$X.confirm.with.log 2>&1; rc_with=$?
    # demo commands that end in a clean-up step lose cargo's exit code: read the verdict from the log
    if [ $rc_with -eq 0 ] && grep -qE "test result: FAILED|panicked at" $wt/OUT/$X.confirm.with.log; then rc_with=101; fi
    (cd $wt && git checkout -- . )
    bash -c "$demo" > $wt/OUT/$X.confirm.without.log 2>&1; rc_without=$?
    if [ $rc_without -eq 0 ] && grep -qE "test result: FAILED|panicked at" $wt/OUT/$X.confirm.without.log; then rc_without=101; fi
    (cd $wt && git checkout -- . )
    echo "{\"id\":\"$id\",\"x\":\"$X\",\"suite_passed_failed\":\"$suite\",\"demo_rc_with_change\":$rc_with,\"demo_rc_without_change\":$rc_without}" > /verif/work/confirm6/${id}_$X.json
    cp $wt/OUT/$X.confirm.with.log /verif/work/confirm6/${id}_$X.with.log; cp $wt/OUT/$X.confirm.without.log /verif/work/confirm6/${id}_$X.without.log
  done
  git -C /repo worktree remove --force $wt
  rm -rf $wt
done
