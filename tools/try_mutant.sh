#!/bin/sh
# usage: try_mutant.sh <patch.diff> <ID> [<ID>...]   applies the patch to /repo, runs bin/check for each id, reverts
p=$1; shift
cd /repo && git diff --quiet || { echo "repo dirty"; exit 3; }
git -C /repo apply "$p" || { echo "patch does not apply"; exit 3; }
for id in "$@"; do
  out=$(cd /verif && VERIF_TIER=${VERIF_TIER:-quick} bin/check $id --tier ${VERIF_TIER:-quick} 2>&1); rc=$?
  echo "== $id rc=$rc"; echo "$out" | grep -E "VIOLATION|violation:|TOOL-ERROR|^OK|KNOWN" | cut -c1-400
done
git -C /repo checkout -- .
