#!/bin/bash
# usage: confirm_mutants.sh <ID>...   re-confirms the seeded changes of /verif/work/pending/<ID>/{A,B} in a scratch worktree:
#   suite passes with the change, demo fails with it, demo passes without it.  Results: /verif/work/confirm/<ID>_<X>.json
for id in "$@"; do
  wt=/tmp/zkmut-$id
  /verif/tools/mkworktree.sh $id >/dev/null
  cp -r /verif/work/pending/$id/. $wt/OUT/
  for X in A B; do
    [ -f $wt/OUT/$X.patch.diff ] || continue
    demo=$(python3 -c "import json;print(json.load(open('$wt/OUT/$X.meta.json'))['demo_cmd'])")
    (cd $wt && git apply OUT/$X.patch.diff) || { echo "{\"id\":\"$id\",\"x\":\"$X\",\"error\":\"patch does not apply\"}" > /verif/work/confirm/${id}_$X.json; continue; }
    suite=$(cd $wt && cargo test --workspace --no-fail-fast --offline 2>&1 | grep -E "^test result" | awk '{p+=$4; f+=$6} END {print p" "f}')
    bash -c "$demo" > $wt/OUT/$X.confirm.with.log 2>&1; rc_with=$?
    (cd $wt && git checkout -- . )
    bash -c "$demo" > $wt/OUT/$X.confirm.without.log 2>&1; rc_without=$?
    (cd $wt && git checkout -- . )
    echo "{\"id\":\"$id\",\"x\":\"$X\",\"suite_passed_failed\":\"$suite\",\"demo_rc_with_change\":$rc_with,\"demo_rc_without_change\":$rc_without}" > /verif/work/confirm/${id}_$X.json
    cp $wt/OUT/$X.confirm.with.log /verif/work/confirm/${id}_$X.with.log; cp $wt/OUT/$X.confirm.without.log /verif/work/confirm/${id}_$X.without.log
  done
  git -C /repo worktree remove --force $wt
  rm -rf $wt
done
