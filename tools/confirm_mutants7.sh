#!/bin/bash
# usage: confirm_mutants7.sh <ID> <X>   round 7: re-confirms the change <X> the agent left in /tmp/zkmut-<ID>/OUT, in that scratch worktree:
#   suite passes with the change, demo fails with it, demo passes without it.  Results: /verif/work/confirm7/<ID>_<X>.json
mkdir -p /verif/work/confirm7 /verif/work/pending7
id=$1; X=$2; wt=/tmp/zkmut-$id
mkdir -p /verif/work/pending7/$id; cp -r $wt/OUT/$X.* /verif/work/pending7/$id/ 2>/dev/null
(cd $wt && git checkout -- . )
demo=$(python3 -c "import json;print(json.load(open('$wt/OUT/$X.meta.json'))['demo_cmd'].split('#')[0].split('; (afterwards')[0])")
(cd $wt && git apply OUT/$X.patch.diff) || { echo "{\"id\":\"$id\",\"x\":\"$X\",\"error\":\"patch does not apply\"}" > /verif/work/confirm7/${id}_$X.json; exit; }
suite=$(cd $wt && cargo test --workspace --no-fail-fast --offline 2>&1 | grep -E "^test result" | awk '{p+=$4; f+=$6} END {print p" "f}')
bash -c "$demo" > $wt/OUT/$X.confirm.with.log 2>&1; rc_with=$?
if [ $rc_with -eq 0 ] && grep -qE "test result: FAILED|panicked at" $wt/OUT/$X.confirm.with.log; then rc_with=101; fi
(cd $wt && git checkout -- . )
bash -c "$demo" > $wt/OUT/$X.confirm.without.log 2>&1; rc_without=$?
if [ $rc_without -eq 0 ] && grep -qE "test result: FAILED|panicked at" $wt/OUT/$X.confirm.without.log; then rc_without=101; fi
(cd $wt && git checkout -- . ; git status --short | grep -v "^??" )
echo "{\"id\":\"$id\",\"x\":\"$X\",\"suite_passed_failed\":\"$suite\",\"demo_rc_with_change\":$rc_with,\"demo_rc_without_change\":$rc_without}" > /verif/work/confirm7/${id}_$X.json
tail -5 $wt/OUT/$X.confirm.with.log > /verif/work/confirm7/${id}_$X.with.log; tail -5 $wt/OUT/$X.confirm.without.log > /verif/work/confirm7/${id}_$X.without.log
