//! Revocation pairs (C05): generation under chosen secrets and decoding of crafted byte strings,
//! with the digest / canonicity / equality facts computed independently (SHA3 + bls12_381).
use crate::rngs::{wide_bytes_of, Draw, Scripted};
use crate::util::panic_message;
use bls12_381::Scalar;
use ff::Field;
use rand::RngCore;
use serde_json::{json, Value};
use sha3::{Digest, Sha3_256};
use std::panic::{catch_unwind, AssertUnwindSafe};
use zkabacus_crypto::revlock::RevocationPair;

fn digest(secret: &Scalar, index: u8) -> [u8; 32] {
    let mut h = Sha3_256::new();
    h.update(secret.to_bytes());
    h.update([index]);
    let mut d = [0u8; 32];
    d.copy_from_slice(h.finalize().as_ref());
    d
}
fn canonical(d: &[u8; 32]) -> bool {
    bool::from(Scalar::from_bytes(d).is_some())
}
/// the little-endian value of `d` reduced modulo q (as canonical scalar bytes)
fn reduced(d: &[u8; 32]) -> [u8; 32] {
    let l = |i: usize| { let mut a = [0u8; 8]; a.copy_from_slice(&d[8 * i..8 * i + 8]); u64::from_le_bytes(a) };
    Scalar::from_raw([l(0), l(1), l(2), l(3)]).to_bytes()
}

fn decode_event(case: &str, lock: &[u8; 32], secret: &Scalar, index: u8) -> Value {
    let mut bytes = lock.to_vec();
    bytes.extend_from_slice(&secret.to_bytes());
    bytes.push(index);
    let d = digest(secret, index);
    let r = catch_unwind(AssertUnwindSafe(|| bincode::deserialize::<RevocationPair>(&bytes)));
    let (out, reenc) = match r {
        Ok(Ok(p)) => ("ok".to_string(), bincode::serialize(&p).map(|b| b == bytes).unwrap_or(false)
            && p.revocation_lock().as_bytes() == *lock && p.revocation_secret().as_bytes()[..32] == secret.to_bytes()[..] && p.revocation_secret().as_bytes()[32] == index),
        Ok(Err(_)) => ("err".to_string(), false),
        Err(e) => (format!("panic:{}", panic_message(e)), false),
    };
    json!({"ev": "pairdecode", "case": case, "index": index, "out": out, "reencodes": reenc,
           "lock_canonical": canonical(lock), "digest_canonical": canonical(&d), "lock_is_digest": *lock == d,
           "digest_top_byte": d[31]})
}

pub fn run(seed: u64, n: usize) -> Vec<Value> {
    let mut rng = crate::rngs::seeded(seed, 71);
    let mut ev = vec![];
    // ---- generation under chosen secrets (scripted RNG: the secret is the one scalar draw)
    let mut boundary = vec![];
    let mut tries = 0u64;
    let mut secrets: Vec<Scalar> = (0..n).map(|_| Scalar::random(&mut rng)).collect();
    secrets.extend([Scalar::zero(), Scalar::one(), -Scalar::one(), Scalar::from(2822u64)]);
    // secrets whose digest at index 0 has the modulus' top byte but is not canonical (q <= d < 0x74 << 248)
    while boundary.len() < 3 && tries < 2_000_000 {
        let s = Scalar::from(tries);
        let d = digest(&s, 0);
        if d[31] == 0x73 && !canonical(&d) {
            boundary.push(s);
        }
        tries += 1;
    }
    secrets.extend(boundary.iter().cloned());
    // secrets whose first canonical index is deep (found by search; the facts are recomputed here): the generation loop
    // must walk that far - 23, 24, 25, 26, 27 and 33 indices
    secrets.extend([27818u64, 6127463, 2232804, 13477281, 9914167, 515925448].iter().map(|&v| Scalar::from(v)));
    for s in &secrets {
        let mut w = [0u8; 32];
        w.copy_from_slice(&wide_bytes_of(s)[..32]);
        let mut srng = Scripted::new(vec![Draw::Scalar(w)], seed);
        let r = catch_unwind(AssertUnwindSafe(|| zkabacus_crypto::internal::test_new_revocation_pair(&mut srng)));
        match r {
            Ok(p) => {
                let sb = p.revocation_secret().as_bytes();
                let idx = sb[32];
                let canon: Vec<bool> = (0..=idx).map(|i| canonical(&digest(s, i))).collect();
                let lock = p.revocation_lock().as_bytes();
                let bytes = bincode::serialize(&p).unwrap();
                ev.push(json!({"ev": "pairgen", "out": "ok", "index": idx, "canon": canon,
                               "lock_is_digest": lock == digest(s, idx), "secret_roundtrip": sb[..32] == s.to_bytes()[..],
                               "redecodes": bincode::deserialize::<RevocationPair>(&bytes).map(|q| q == p).unwrap_or(false),
                               "scalar_draws": srng.scalar_draws()}));
                // decode variants of this honest pair
                let mut l2 = lock;
                ev.push(decode_event("valid", &lock, s, idx));
                l2 = (Scalar::from_bytes(&l2).unwrap() + Scalar::one()).to_bytes();
                ev.push(decode_event("lock altered", &l2, s, idx));
                // the lock altered so that a LOSSY comparison (word-wise XOR fold, sum of words, first bytes only) could
                // miss it: the same mask XORed into two 64-bit words, two words exchanged, only the last byte changed
                {
                    let words = |b: &[u8; 32]| -> [u64; 4] { let mut w = [0u64; 4]; for i in 0..4 { let mut a = [0u8; 8]; a.copy_from_slice(&b[8 * i..8 * i + 8]); w[i] = u64::from_le_bytes(a); } w };
                    let unwords = |w: &[u64; 4]| -> [u8; 32] { let mut b = [0u8; 32]; for i in 0..4 { b[8 * i..8 * i + 8].copy_from_slice(&w[i].to_le_bytes()); } b };
                    let w0 = words(&lock);
                    for (a, b2) in [(0usize, 1usize), (1, 2), (0, 2)] {
                        let mut w = w0; w[a] ^= 0x5a5a_0000_1234_5678; w[b2] ^= 0x5a5a_0000_1234_5678;
                        ev.push(decode_event("lock altered: one mask XORed into two words", &unwords(&w), s, idx));
                        let mut w = w0; w.swap(a, b2);
                        if w != w0 { ev.push(decode_event("lock altered: two words exchanged", &unwords(&w), s, idx)); }
                    }
                    let mut l3 = lock; l3[0] ^= 1;
                    ev.push(decode_event("lock altered: lowest bit", &l3, s, idx));
                    let mut l4 = lock; l4[30] ^= 0x10;
                    ev.push(decode_event("lock altered: a high byte", &l4, s, idx));
                }
                ev.push(decode_event("secret altered", &lock, &(s + Scalar::one()), idx));
                ev.push(decode_event("index altered", &lock, s, idx.wrapping_add(1)));
                if idx > 0 {
                    // an index whose digest is not canonical, offered with the digest reduced mod q as lock
                    // and with the raw (non-canonical) digest bytes as lock
                    let d0 = digest(s, idx - 1);
                    ev.push(decode_event("non-canonical digest, lock = digest mod q", &reduced(&d0), s, idx - 1));
                    ev.push(decode_event("non-canonical digest, lock = raw digest bytes", &d0, s, idx - 1));
                }
            }
            Err(e) => ev.push(json!({"ev": "pairgen", "out": format!("panic:{}", panic_message(e))})),
        }
    }
    // random byte strings as pairs
    for _ in 0..n {
        let mut b = [0u8; 65];
        rng.fill_bytes(&mut b);
        b[31] &= 0x3f; // make the lock and secret canonical scalars more often
        b[63] &= 0x3f;
        let mut lock = [0u8; 32];
        lock.copy_from_slice(&b[..32]);
        let mut sb = [0u8; 32];
        sb.copy_from_slice(&b[32..64]);
        if let Some(s) = Option::<Scalar>::from(Scalar::from_bytes(&sb)) {
            ev.push(decode_event("random", &lock, &s, b[64]));
        }
    }
    ev
}
