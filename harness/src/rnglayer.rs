//! Randomness-driven loops and separation properties (C18, C19): nonce generation under crafted
//! streams, state nonces under a close-tag-congruent draw at every scalar-draw position, pay token vs
//! closing signature, channel-id derivation, key / parameter generation under zero windows.
use crate::game::GameEnv;
use crate::indep::{self, Pk};
use crate::proto::{customer_config_of, Cust};
use crate::rec::Tree;
use crate::rngs::{seeded, Draw, Scripted};
use crate::util::panic_message;
use bls12_381::{pairing, G1Affine, G2Affine, Scalar};
use ff::Field;
use rand::RngCore;
use serde_json::{json, Value};
use std::panic::{catch_unwind, AssertUnwindSafe};
use zkabacus_crypto::customer::ClosingMessage;
use zkabacus_crypto::{ChannelId, Context, CustomerBalance, CustomerRandomness, MerchantBalance, MerchantRandomness, Nonce, PaymentAmount, Verification, CLOSE_SCALAR};
use zkchannels_crypto::pedersen::PedersenParameters;
use zkchannels_crypto::pointcheval_sanders::KeyPair;
use zkchannels_crypto::proofs::RangeConstraintParameters;
use zkchannels_crypto::Message;

const Q: [u64; 4] = [0xffff_ffff_0000_0001, 0x53bd_a402_fffe_5bfe, 0x3339_d808_09a1_d805, 0x73ed_a753_299d_7d48];

/// 64 little-endian bytes of  s + j*q  (congruent to s modulo the group order; j = 0 is the canonical form)
pub fn wide_congruent(s: &Scalar, j: u64) -> [u8; 64] {
    let sb = s.to_bytes();
    let mut limbs = [0u64; 8];
    for i in 0..4 { let mut a = [0u8; 8]; a.copy_from_slice(&sb[8 * i..8 * i + 8]); limbs[i] = u64::from_le_bytes(a); }
    let mut carry: u128 = 0;
    for i in 0..8 {
        let add = if i < 4 { (Q[i] as u128) * (j as u128) } else { 0 };
        let t = limbs[i] as u128 + (add & 0xffff_ffff_ffff_ffff) + carry;
        limbs[i] = t as u64;
        carry = (t >> 64) + (add >> 64);
    }
    let mut out = [0u8; 64];
    for i in 0..8 { out[8 * i..8 * i + 8].copy_from_slice(&limbs[i].to_le_bytes()); }
    out
}

/// RNG whose k-th 64-byte fill returns prepared bytes; everything else is seeded random
struct WideScript { script: Vec<Option<[u8; 64]>>, pos: usize, wide: usize, inner: rand::rngs::StdRng }
impl RngCore for WideScript {
    fn next_u32(&mut self) -> u32 { self.inner.next_u32() }
    fn next_u64(&mut self) -> u64 { self.inner.next_u64() }
    fn fill_bytes(&mut self, d: &mut [u8]) {
        if d.len() == 64 {
            self.wide += 1;
            let s = self.script.get(self.pos).cloned().flatten();
            self.pos += 1;
            if let Some(b) = s { d.copy_from_slice(&b); return; }
        }
        self.inner.fill_bytes(d)
    }
    fn try_fill_bytes(&mut self, d: &mut [u8]) -> Result<(), rand::Error> { self.fill_bytes(d); Ok(()) }
}
impl rand::CryptoRng for WideScript {}
fn wide_rng(script: Vec<Option<[u8; 64]>>, seed: u64) -> WideScript { WideScript { script, pos: 0, wide: 0, inner: seeded(seed, 55) } }

pub fn run_c18(seed: u64, thorough: bool) -> Vec<Value> {
    let mut out = vec![];
    let close_b = CLOSE_SCALAR.to_bytes();
    // ---- Nonce::new under streams that start with k draws congruent to the close tag
    for k in 0..4usize {
        for j in 0..(if thorough { 6u64 } else { 3 }) {
            let mut script: Vec<Option<[u8; 64]>> = vec![Some(wide_congruent(&CLOSE_SCALAR, j)); k];
            script.push(None);
            let mut r = wide_rng(script, seed + k as u64);
            let res = catch_unwind(AssertUnwindSafe(|| zkabacus_crypto::internal::test_new_nonce(&mut r)));
            match res {
                Ok(n) => {
                    let nb = bincode::serialize(&n).unwrap();
                    out.push(json!({"ev": "nonce", "close_prefix": k, "multiple_of_q_added": j, "out": "ok", "is_close": nb == close_b, "draws": r.wide}));
                }
                Err(e) => out.push(json!({"ev": "nonce", "close_prefix": k, "multiple_of_q_added": j, "out": format!("panic:{}", panic_message(e)), "is_close": false, "draws": 0})),
            }
        }
    }
    // sanity of the crafted bytes: they do reduce to the close tag
    for j in 0..4u64 {
        out.push(json!({"ev": "crafted", "j": j, "reduces_to_close": Scalar::from_bytes_wide(&wide_congruent(&CLOSE_SCALAR, j)) == CLOSE_SCALAR}));
    }
    // ---- decoding
    for (case, b, expect_ok) in [("close tag", close_b, false), ("close tag + 1", (CLOSE_SCALAR + Scalar::one()).to_bytes(), true), ("zero", Scalar::zero().to_bytes(), true),
                                 ("q - 1", (-Scalar::one()).to_bytes(), true)] {
        let r = catch_unwind(|| bincode::deserialize::<Nonce>(&b).is_ok());
        out.push(json!({"ev": "noncedecode", "case": case, "expect_ok": expect_ok, "out": match r { Ok(true) => "ok".to_string(), Ok(false) => "err".into(), Err(e) => format!("panic:{}", panic_message(e)) }}));
    }
    // ---- Requested::new / Ready::start with a close-congruent draw at every scalar-draw position
    let mut g = GameEnv::new(seed);
    let m = g.world.mers[0];
    let cfg = customer_config_of(m);
    let pk = m.signing_keypair().public_key().clone();
    let mut rng = seeded(seed, 94);
    let cid = ChannelId::new(MerchantRandomness::new(&mut rng), CustomerRandomness::new(&mut rng), &pk, b"m", b"c");
    let ctx = Context::new(b"c18");
    let (cb, mb) = (CustomerBalance::try_new(10).unwrap(), MerchantBalance::try_new(5).unwrap());
    let base = { let mut r = wide_rng(vec![], seed); let _ = zkabacus_crypto::customer::Requested::new(&mut r, &cfg, cid, mb, cb, &ctx); r.wide };
    for pos in 0..base {
        for j in [0u64, 1, 2] {
            let mut script = vec![None; pos];
            script.push(Some(wide_congruent(&CLOSE_SCALAR, j)));
            let mut r = wide_rng(script, seed);
            let res = catch_unwind(AssertUnwindSafe(|| zkabacus_crypto::customer::Requested::new(&mut r, &cfg, cid, mb, cb, &ctx)));
            match res {
                Ok((req, _)) => {
                    let t = Tree::of(&req);
                    out.push(json!({"ev": "statenonce", "call": "Requested::new", "pos": pos, "j": j, "out": "ok", "is_close": t.bytes_at("state.nonce").unwrap() == close_b,
                                    "extra_draws": r.wide as i64 - base as i64, "restorable": bincode::deserialize::<zkabacus_crypto::customer::Requested>(&t.bytes).is_ok()}));
                }
                Err(e) => out.push(json!({"ev": "statenonce", "call": "Requested::new", "pos": pos, "j": j, "out": format!("panic:{}", panic_message(e)), "is_close": false, "extra_draws": 0, "restorable": false})),
            }
        }
    }
    let info = g.honest_ready(100, 50, &[]);
    let ready_bytes = g.world.chans[&info.ch].cust.to_bytes();
    let amt: PaymentAmount = bincode::deserialize(&3i64.to_le_bytes()).unwrap();
    let ccfg = customer_config_of(m);
    let base2 = { let mut r = wide_rng(vec![], seed); if let Ok(Cust::Ready(rd)) = Cust::from_bytes("ready", &ready_bytes) { let _ = rd.start(&mut r, amt, &info.ctx, &ccfg); } r.wide };
    let positions: Vec<usize> = if thorough { (0..base2).collect() } else { vec![0, 1, 2, 3, base2 / 2, base2 - 1] };
    for pos in positions {
        let mut script = vec![None; pos];
        script.push(Some(wide_congruent(&CLOSE_SCALAR, (pos % 3) as u64)));
        let mut r = wide_rng(script, seed);
        let rd = match Cust::from_bytes("ready", &ready_bytes) { Ok(Cust::Ready(rd)) => rd, _ => continue };
        let res = catch_unwind(AssertUnwindSafe(|| rd.start(&mut r, amt, &info.ctx, &ccfg)));
        match res {
            Ok(Ok((st, msg))) => {
                let t = Tree::of(&st);
                out.push(json!({"ev": "statenonce", "call": "Ready::start", "pos": pos, "j": pos % 3, "out": "ok",
                                "is_close": t.bytes_at("new_state.nonce").unwrap() == close_b || bincode::serialize(&msg.nonce).unwrap() == close_b,
                                "extra_draws": r.wide as i64 - base2 as i64, "restorable": bincode::deserialize::<zkabacus_crypto::customer::Started>(&t.bytes).is_ok()}));
            }
            Ok(Err(_)) => out.push(json!({"ev": "statenonce", "call": "Ready::start", "pos": pos, "j": pos % 3, "out": "refused", "is_close": false, "extra_draws": 0, "restorable": false})),
            Err(e) => out.push(json!({"ev": "statenonce", "call": "Ready::start", "pos": pos, "j": pos % 3, "out": format!("panic:{}", panic_message(e)), "is_close": false, "extra_draws": 0, "restorable": false})),
        }
    }
    // ---- a pay token never verifies as closing signature for the close state sharing its other fields, nor vice versa
    for hist in [vec![], vec![4i64]] {
        let info = g.honest_ready(100, 50, &hist);
        let c = &g.world.chans[&info.ch];
        let t = c.cust.tree();
        let span = |p: &str| { let (lo, hi) = t.span(p).unwrap(); t.bytes[lo..hi].to_vec() };
        let (tok, csig) = (span("pay_token"), span("close_state_signature"));
        // the honest closing message, then the same with the pay token in place of the closing signature
        let ready = match Cust::from_bytes("ready", &t.bytes) { Ok(Cust::Ready(r)) => r, _ => continue };
        let cm = ready.close(&mut rng);
        let cmt = Tree::of(&cm);
        let check = |bytes: &[u8]| -> bool {
            match bincode::deserialize::<ClosingMessage>(bytes) {
                Ok(cm) => { let (s, cs) = cm.into_parts(); matches!(m.check_close_signature(s, &cs), Verification::Verified) }
                Err(_) => false,
            }
        };
        let mut with_tok = cmt.bytes.clone();
        crate::game::patch_span(&mut with_tok, &cmt, "close_signature", &tok);
        let mut with_csig = cmt.bytes.clone();
        crate::game::patch_span(&mut with_csig, &cmt, "close_signature", &csig);
        // the closing signature in place of the pay token: the customer proves a payment with it, the merchant must refuse
        let mut rb = t.bytes.clone();
        crate::game::patch_span(&mut rb, &t, "pay_token", &csig);
        let closing_as_token = match Cust::from_bytes("ready", &rb) {
            Ok(Cust::Ready(rd)) => match rd.start(&mut rng, amt, &info.ctx, &ccfg) {
                Ok((_s, msg)) => m.allow_payment(&mut rng, amt, &msg.nonce, msg.pay_proof, &info.ctx).is_some(),
                Err(_) => false,
            },
            _ => false,
        };
        // control: the real token is accepted
        let token_as_token = match Cust::from_bytes("ready", &t.bytes) {
            Ok(Cust::Ready(rd)) => match rd.start(&mut rng, amt, &info.ctx, &ccfg) {
                Ok((_s, msg)) => m.allow_payment(&mut rng, amt, &msg.nonce, msg.pay_proof, &info.ctx).is_some(),
                Err(_) => false,
            },
            _ => false,
        };
        // independent evaluation of the PS relation on both message layouts
        let pkv = Pk::from_tree(&Tree::of(&pk), "").unwrap();
        let stup = |close: bool| -> Vec<Scalar> {
            let cidb = t.bytes_at("state.channel_id").unwrap();
            let l = |i: usize| { let mut a = [0u8; 8]; a.copy_from_slice(&cidb[8 * i..8 * i + 8]); u64::from_le_bytes(a) };
            vec![Scalar::from_raw([l(0), l(1), l(2), l(3)]), if close { CLOSE_SCALAR } else { indep::sc(t.bytes_at("state.nonce").unwrap()).unwrap() },
                 indep::sc(t.bytes_at("state.revocation_pair.lock").unwrap()).unwrap(), Scalar::from(t.u64_at("state.customer_balance").unwrap()), Scalar::from(t.u64_at("state.merchant_balance").unwrap())]
        };
        let rel = |sig: &[u8], close: bool| -> bool { let (s1, s2) = (indep::g1(&sig[..48]).unwrap(), indep::g1(&sig[48..]).unwrap()); let (a, b) = indep::ps_relation(&pkv, &stup(close), &s1, &s2); a && b };
        out.push(json!({"ev": "tagsep", "history": hist.len(), "closing_message_ok": check(&cmt.bytes), "stored_closing_signature_ok": check(&with_csig),
                        "token_as_closing_signature": check(&with_tok), "token_as_token": token_as_token, "closing_signature_as_token": closing_as_token,
                        "independent": {"token_on_state": rel(&tok, false), "token_on_close_state": rel(&tok, true), "closing_on_close_state": rel(&csig, true), "closing_on_state": rel(&csig, false)},
                        "nonce_differs_from_close_tag": stup(false)[1] != CLOSE_SCALAR}));
    }
    // ---- channel id: deterministic, and every single input matters
    let mr: MerchantRandomness = bincode::deserialize(&[7u8; 32]).unwrap();
    let cr: CustomerRandomness = bincode::deserialize(&[9u8; 32]).unwrap();
    let (mi, ci): (&[u8], &[u8]) = (b"merchant-account-0001", b"customer-account-0001");
    let id0 = ChannelId::new(mr, cr, &pk, mi, ci).to_bytes();
    out.push(json!({"ev": "cid", "input": "none", "variant": "recomputed", "changed": ChannelId::new(mr, cr, &pk, mi, ci).to_bytes() != id0, "expect_changed": false}));
    let other_pk = KeyPair::<5>::new(&mut rng).public_key().clone();
    for byte in [0usize, 15, 31] {
        let mut b = [7u8; 32]; b[byte] ^= 1;
        out.push(json!({"ev": "cid", "input": "merchant_randomness", "variant": format!("byte {}", byte), "changed": ChannelId::new(bincode::deserialize(&b).unwrap(), cr, &pk, mi, ci).to_bytes() != id0, "expect_changed": true}));
        let mut b = [9u8; 32]; b[byte] ^= 1;
        out.push(json!({"ev": "cid", "input": "customer_randomness", "variant": format!("byte {}", byte), "changed": ChannelId::new(mr, bincode::deserialize(&b).unwrap(), &pk, mi, ci).to_bytes() != id0, "expect_changed": true}));
    }
    out.push(json!({"ev": "cid", "input": "public_key", "variant": "other key", "changed": ChannelId::new(mr, cr, &other_pk, mi, ci).to_bytes() != id0, "expect_changed": true}));
    // every single field of the merchant public key matters (all other fields fixed)
    {
        let pkt = Tree::of(&pk);
        for l in pkt.leaves.clone() {
            if l.kind != "bytes" { continue; }
            let mut b = pkt.bytes.clone();
            let new: Vec<u8> = if l.len == 48 {
                bls12_381::G1Affine::from(bls12_381::G1Projective::from(crate::indep::g1(&pkt.bytes[l.off..l.off + 48]).unwrap()) + bls12_381::G1Projective::generator()).to_compressed().to_vec()
            } else {
                bls12_381::G2Affine::from(bls12_381::G2Projective::from(crate::indep::g2(&pkt.bytes[l.off..l.off + 96]).unwrap()) + bls12_381::G2Projective::generator()).to_compressed().to_vec()
            };
            b[l.off..l.off + l.len].copy_from_slice(&new);
            if let Ok(vpk) = bincode::deserialize::<zkchannels_crypto::pointcheval_sanders::PublicKey<5>>(&b) {
                out.push(json!({"ev": "cid", "input": "public_key", "variant": format!("field {} replaced", l.path), "changed": ChannelId::new(mr, cr, &vpk, mi, ci).to_bytes() != id0, "expect_changed": true}));
            }
        }
    }
    let variants = |orig: &[u8]| -> Vec<(String, Vec<u8>)> {
        let mut v = vec![];
        for pos in [0usize, orig.len() / 2, orig.len() - 1] { let mut b = orig.to_vec(); b[pos] ^= 0x20; v.push((format!("byte {} changed (same length)", pos), b)); }
        let mut e = orig.to_vec(); e.push(b'x'); v.push(("extended".into(), e));
        v.push(("truncated".into(), orig[..orig.len() - 1].to_vec()));
        v.push(("empty".into(), vec![]));
        v
    };
    for (name, b) in variants(mi) { out.push(json!({"ev": "cid", "input": "merchant_account_info", "variant": name, "changed": ChannelId::new(mr, cr, &pk, &b, ci).to_bytes() != id0, "expect_changed": true})); }
    for (name, b) in variants(ci) { out.push(json!({"ev": "cid", "input": "customer_account_info", "variant": name, "changed": ChannelId::new(mr, cr, &pk, mi, &b).to_bytes() != id0, "expect_changed": true})); }
    // printing and parsing
    let id = ChannelId::new(mr, cr, &pk, mi, ci);
    let printed = id.to_string();
    let parsed: Result<ChannelId, _> = printed.parse();
    // hostile channel-id text: a value or an error, never a panic
    {
        let long = format!("{}{}", printed, printed);
        let cases: Vec<(String, String)> = vec![
            ("one character appended".into(), format!("{}A", printed)),
            ("two ids back to back".into(), long.clone()),
            ("44 characters without padding (33 bytes)".into(), "A".repeat(44)),
            ("empty".into(), String::new()),
            ("not base64".into(), "!!!! not base64 !!!!".into()),
            ("last character removed".into(), printed[..printed.len().saturating_sub(1)].to_string()),
            ("1024 characters".into(), "QUJD".repeat(256)),
            ("padding only".into(), "====".into()),
            ("44 characters spelling 31 bytes".into(), format!("{}==", "A".repeat(42))),
            ("43 characters spelling 32 bytes (no padding)".into(), "A".repeat(43)),
        ];
        for (name, text) in cases {
            let r = catch_unwind(AssertUnwindSafe(|| text.parse::<ChannelId>().map(|p| p.to_bytes() == id.to_bytes())));
            let o = match r { Ok(Ok(true)) => "same".to_string(), Ok(Ok(false)) => "other".into(), Ok(Err(_)) => "err".into(), Err(e) => format!("panic:{}", panic_message(e)) };
            // independent reading of the text: how many bytes does it spell (standard base64, padding optional)?
            let payload = base64::decode_config(text.trim_end_matches('='), base64::STANDARD_NO_PAD).map(|b| b.len() as i64).unwrap_or(-1);
            out.push(json!({"ev": "cidparse", "case": name, "out": o, "payload_len": payload}));
        }
    }
    out.push(json!({"ev": "cid", "input": "print/parse", "variant": "round trip", "changed": parsed.map(|p| p.to_bytes() != id.to_bytes()).unwrap_or(true), "expect_changed": false}));
    out
}

// ====================================================================== C19

fn key_facts<const N: usize>(kp: &KeyPair<N>, rng: &mut rand::rngs::StdRng) -> Value {
    let t = Tree::of(kp);
    let sc = |p: &str| indep::sc(t.bytes_at(p).unwrap()).unwrap();
    let mut secrets_nonzero = sc("sk.x") != Scalar::zero();
    for i in 0..N { secrets_nonzero = secrets_nonzero && sc(&format!("sk.ys.{}", i)) != Scalar::zero(); }
    let id1 = G1Affine::identity().to_compressed();
    let id2 = G2Affine::identity().to_compressed();
    let public_nonidentity = t.atoms().filter(|l| l.path.starts_with("pk.") || l.path == "sk.x1").all(|l| { let b = &t.bytes[l.off..l.off + l.len]; b != &id1[..] && b != &id2[..] });
    let pkv = Pk::from_tree(&t, "pk");
    let consistent = match &pkv {
        Some(pk) => {
            let x1 = indep::g1(t.bytes_at("sk.x1").unwrap());
            let mut ok = x1.map(|x1| pairing(&x1, &pk.g2) == pairing(&pk.g1, &pk.x2)).unwrap_or(false);
            for i in 0..N { ok = ok && pairing(&pk.y1s[i], &pk.g2) == pairing(&pk.g1, &pk.y2s[i]); }
            // and the public elements are the secret scalars times the generators
            ok = ok && bls12_381::G2Projective::from(pk.g2) * sc("sk.x") == bls12_381::G2Projective::from(pk.x2);
            for i in 0..N { ok = ok && bls12_381::G1Projective::from(pk.g1) * sc(&format!("sk.ys.{}", i)) == bls12_381::G1Projective::from(pk.y1s[i]); }
            ok
        }
        None => false,
    };
    let redecodes = bincode::deserialize::<KeyPair<N>>(&t.bytes).map(|k| &k == kp).unwrap_or(false);
    let msg = Message::<N>::random(rng);
    let signs = msg.sign(rng, kp).verify(kp.public_key(), &msg);
    json!({"secret_scalars_nonzero": secrets_nonzero, "public_elements_nonidentity": public_nonidentity, "g1_g2_share_logs": consistent,
           "passes_own_decoder": redecodes, "signature_verifies": signs})
}

fn keygen_n<const N: usize>(seed: u64, thorough: bool, out: &mut Vec<Value>) {
    let mut rng = seeded(seed, 95 + N as u64);
    let base = { let mut s = Scripted::new(vec![], seed); let _ = KeyPair::<N>::new(&mut s); s.scalar_draws() };
    // two kinds of draws that reduce to the zero scalar: all-zero bytes, and the bytes of the group order q (non-zero bytes!)
    const Q_LE: [u8; 32] = [0x01, 0x00, 0x00, 0x00, 0xff, 0xff, 0xff, 0xff, 0xfe, 0x5b, 0xfe, 0xff, 0x02, 0xa4, 0xbd, 0x53, 0x05, 0xd8, 0xa1, 0x09, 0x08, 0xd8, 0x39, 0x33, 0x48, 0x7d, 0x9d, 0x29, 0x53, 0xa7, 0xed, 0x73];
    for (width, zero_draw) in [(1usize, Draw::Zero), (2, Draw::Zero), (3, Draw::Zero), (1, Draw::Scalar(Q_LE)), (2, Draw::Scalar(Q_LE))] {
        if width == 3 && !thorough { continue; }
        for off in 0..(base + 1) {
            let mut script = vec![Draw::Generic; off];
            script.extend(vec![zero_draw; width]);
            let mut s = Scripted::new(script, seed + off as u64);
            let r = catch_unwind(AssertUnwindSafe(|| KeyPair::<N>::new(&mut s)));
            match r {
                Ok(kp) => out.push(json!({"ev": "keygen", "what": format!("KeyPair<{}>", N), "offset": off, "width": width, "out": "ok", "facts": key_facts(&kp, &mut rng),
                                           "extra_draws": s.scalar_draws() as i64 - base as i64, "zero_draws_in_range": width.min(base.saturating_sub(off))})),
                Err(e) => out.push(json!({"ev": "keygen", "what": format!("KeyPair<{}>", N), "offset": off, "width": width, "out": format!("panic:{}", panic_message(e)), "facts": {}, "extra_draws": 0, "zero_draws_in_range": 0})),
            }
        }
    }
    // Pedersen parameters: no generator has a discrete logarithm that was DRAWN - relative to the group's standard
    // generator or to another generator of the set (whoever can replay the set-up randomness could then open commitments
    // at will).  Every 64-byte draw of the generation is reduced as Scalar::random does and tried.
    {
        let mut s = Scripted::new(vec![], seed ^ 0x77);
        s.scalar_only = false;
        let p1 = PedersenParameters::<bls12_381::G1Projective, N>::new(&mut s);
        let t1 = Tree::of(&p1);
        let gens: Vec<bls12_381::G1Projective> = t1.atoms().filter_map(|l| indep::g1(&t1.bytes[l.off..l.off + l.len])).map(bls12_381::G1Projective::from).collect();
        let mut clean = true;
        for d in &s.drawn {
            let k = Scalar::from_bytes_wide(d);
            if k == Scalar::zero() { continue; }
            let std = bls12_381::G1Projective::generator() * k;
            for (a, ga) in gens.iter().enumerate() {
                if *ga == std { clean = false; }
                for (b, gb) in gens.iter().enumerate() { if a != b && *ga == *gb * k { clean = false; } }
            }
        }
        out.push(json!({"ev": "keygen", "what": format!("PedersenParameters<{}>", N), "offset": 0, "width": 0, "out": "ok",
                        "facts": {"no_generator_has_a_drawn_discrete_log": clean}, "extra_draws": 0, "zero_draws_in_range": 0}));
    }
    // Pedersen parameters (both groups): only non-identity generators, pass the decoder
    for (i, width) in [(0usize, 1usize), (1, 2), (0, 4)] {
        let mut script = vec![Draw::Generic; i];
        script.extend(vec![Draw::Zero; width]);
        let mut s = Scripted::new(script, seed);
        s.scalar_only = false;            // zero windows in the raw byte stream of the group sampler
        let r = catch_unwind(AssertUnwindSafe(|| (PedersenParameters::<bls12_381::G1Projective, N>::new(&mut s), PedersenParameters::<bls12_381::G2Projective, N>::new(&mut s))));
        match r {
            Ok((p1, p2)) => {
                let (t1, t2) = (Tree::of(&p1), Tree::of(&p2));
                let id1 = G1Affine::identity().to_compressed();
                let id2 = G2Affine::identity().to_compressed();
                let ok = t1.atoms().all(|l| t1.bytes[l.off..l.off + l.len] != id1[..]) && t2.atoms().all(|l| t2.bytes[l.off..l.off + l.len] != id2[..]);
                let dec = bincode::deserialize::<PedersenParameters<bls12_381::G1Projective, N>>(&t1.bytes).map(|q| q == p1).unwrap_or(false)
                    && bincode::deserialize::<PedersenParameters<bls12_381::G2Projective, N>>(&t2.bytes).map(|q| q == p2).unwrap_or(false);
                out.push(json!({"ev": "keygen", "what": format!("PedersenParameters<{}>", N), "offset": i, "width": width, "out": "ok",
                                "facts": {"generators_nonidentity": ok, "passes_own_decoder": dec}, "extra_draws": 0, "zero_draws_in_range": 0}));
            }
            Err(e) => out.push(json!({"ev": "keygen", "what": format!("PedersenParameters<{}>", N), "offset": i, "width": width, "out": format!("panic:{}", panic_message(e)), "facts": {}, "extra_draws": 0, "zero_draws_in_range": 0})),
        }
    }
}

pub fn run_c19(seed: u64, thorough: bool) -> Vec<Value> {
    let mut out = vec![];
    macro_rules! spawn_n { ($n:literal) => { std::thread::spawn(move || { let mut o = vec![]; keygen_n::<$n>(seed, thorough, &mut o); o }) }; }
    let hs = vec![spawn_n!(1), spawn_n!(2), spawn_n!(3), spawn_n!(5), spawn_n!(8), spawn_n!(13)];
    // range parameters and the merchant configuration under a zero window at every scalar-draw position
    let hr = std::thread::spawn(move || {
        let mut o = vec![];
        let mut rng = seeded(seed, 97);
        let base = { let mut s = Scripted::new(vec![], seed); let _ = RangeConstraintParameters::new(&mut s); s.scalar_draws() };
        let mut positions: Vec<usize> = (0..(base + 1).min(6)).collect();
        if base > 6 { positions.extend([base / 2, base - 1]); if thorough { positions = (0..base + 1).collect(); } }
        for off in positions {
            for width in [1usize, 2] {
                let mut script = vec![Draw::Generic; off];
                script.extend(vec![Draw::Zero; width]);
                let mut s = Scripted::new(script, seed + off as u64);
                let r = catch_unwind(AssertUnwindSafe(|| RangeConstraintParameters::new(&mut s)));
                match r {
                    Ok(rp) => {
                        let t = Tree::of(&rp);
                        let rpk = Pk::from_tree(&t, "public_key");
                        let mut all = rpk.is_some();
                        if let Some(pk) = &rpk {
                            for k in 0..128usize {
                                let (lo, hi) = t.span(&format!("digit_signatures.{}", k)).unwrap();
                                let ok = match (indep::g1(&t.bytes[lo..lo + 48]), indep::g1(&t.bytes[lo + 48..hi])) {
                                    (Some(s1), Some(s2)) => { let (wf, pe) = indep::ps_relation(pk, &[Scalar::from(k as u64)], &s1, &s2); wf && pe }
                                    _ => false,
                                };
                                all = all && ok;
                            }
                        }
                        let mut distinct = std::collections::HashSet::new();
                        let mut s1_distinct = true;
                        for k in 0..128usize { let (lo, _) = t.span(&format!("digit_signatures.{}", k)).unwrap(); if !distinct.insert(t.bytes[lo..lo + 48].to_vec()) { s1_distinct = false; } }
                        o.push(json!({"ev": "keygen", "what": "RangeConstraintParameters", "offset": off, "width": width, "out": "ok",
                                      "facts": {"validate_ok": rp.validate().is_ok(), "every_digit_signature_valid_independently": all, "fresh_base_per_signature": s1_distinct,
                                                "passes_own_decoder": bincode::deserialize::<RangeConstraintParameters>(&t.bytes).map(|q| q == rp).unwrap_or(false)},
                                      "extra_draws": s.scalar_draws() as i64 - base as i64, "zero_draws_in_range": width.min(base.saturating_sub(off))}));
                    }
                    Err(e) => o.push(json!({"ev": "keygen", "what": "RangeConstraintParameters", "offset": off, "width": width, "out": format!("panic:{}", panic_message(e)), "facts": {}, "extra_draws": 0, "zero_draws_in_range": 0})),
                }
            }
        }
        // merchant configuration
        let base = { let mut s = Scripted::new(vec![], seed); let _ = zkabacus_crypto::merchant::Config::new(&mut s); s.scalar_draws() };
        for off in 0..(base + 1) {
            let mut script = vec![Draw::Generic; off];
            script.push(Draw::Zero);
            let mut s = Scripted::new(script, seed + 1000 + off as u64);
            let r = catch_unwind(AssertUnwindSafe(|| zkabacus_crypto::merchant::Config::new(&mut s)));
            match r {
                Ok(m) => {
                    let mut facts = key_facts(m.signing_keypair(), &mut rng);
                    let (pk, cp, rp) = m.extract_customer_config_parts();
                    facts["range_parameters_validate"] = json!(rp.validate().is_ok());
                    let ccfg = zkabacus_crypto::customer::Config::from_parts(pk, cp, rp);
                    facts["customer_config_passes_decoder"] = json!(bincode::deserialize::<zkabacus_crypto::customer::Config>(&bincode::serialize(&ccfg).unwrap()).map(|c| c == ccfg).unwrap_or(false));
                    o.push(json!({"ev": "keygen", "what": "merchant::Config", "offset": off, "width": 1, "out": "ok", "facts": facts,
                                  "extra_draws": s.scalar_draws() as i64 - base as i64, "zero_draws_in_range": 1usize.min(base.saturating_sub(off))}));
                }
                Err(e) => o.push(json!({"ev": "keygen", "what": "merchant::Config", "offset": off, "width": 1, "out": format!("panic:{}", panic_message(e)), "facts": {}, "extra_draws": 0, "zero_draws_in_range": 0})),
            }
        }
        o
    });
    for h in hs { out.extend(h.join().expect("keygen worker")); }
    out.extend(hr.join().expect("range worker"));
    out
}
