//! Library layer (zkchannels-crypto): executes operation chains / proof cases against the real
//! code and logs verdicts together with independently evaluated relation atoms.
//! Commands: psig (C07, C08), pedersen (C09), schnorr (C10, C11), range (C13).
use crate::indep::{self, Cp, Pk, Sp};
use crate::rec::Tree;
use crate::rngs::{seeded, Draw, Scripted};
use crate::util::panic_message;
use bls12_381::{G1Affine, G1Projective, G2Affine, G2Projective, Scalar};
use ff::Field;
use group::{Curve, Group};
use rand::rngs::StdRng;
use serde_json::{json, Value};
use std::panic::{catch_unwind, AssertUnwindSafe};
use zkchannels_crypto::pedersen::PedersenParameters;
use zkchannels_crypto::pointcheval_sanders::{BlindedSignature, KeyPair, PublicKey, Signature};
use zkchannels_crypto::proofs::{
    ChallengeBuilder, CommitmentProofBuilder, RangeConstraintBuilder, RangeConstraintParameters,
    SignatureProofBuilder, SignatureRequestProofBuilder,
};
use zkchannels_crypto::{BlindingFactor, Message};

pub fn class_scalar(class: &str, rng: &mut StdRng) -> Scalar {
    match class {
        "zero" => Scalar::zero(),
        "one" => Scalar::one(),
        "minus_one" => -Scalar::one(),
        "small" => Scalar::from(7u64),
        // machine-word boundaries: entries a fast path could classify as "small"
        "two63" => Scalar::from(1u64 << 63),
        "two63p1" => Scalar::from((1u64 << 63) + 1),
        "two64m1" => Scalar::from(u64::MAX),
        "two64" => Scalar::from_raw([0, 1, 0, 0]),
        "two128" => Scalar::from_raw([0, 0, 1, 0]),
        "neg_small" => -Scalar::from(7u64),
        "neg_two63" => -Scalar::from(1u64 << 63),
        // limbs of all ones below a higher limb (carry chains of multi-limb recodings): 2^128 - 1, 2^129 - 1, 2^192 - 1
        "ones128" => Scalar::from_raw([u64::MAX, u64::MAX, 0, 0]),
        "ones129" => Scalar::from_raw([u64::MAX, u64::MAX, 1, 0]),
        "ones192" => Scalar::from_raw([u64::MAX, u64::MAX, u64::MAX, 0]),
        // a short value with only the TOP byte of the encoding set as well: 5 + 5 * 2^248
        "top_byte" => { let mut b = [0u8; 32]; b[0] = 5; b[31] = 5; Scalar::from_bytes(&b).unwrap() }
        _ => Scalar::random(&mut *rng),
    }
}
fn class_draw(class: &str) -> Draw {
    match class {
        "zero" => Draw::Zero,
        "one" => Draw::Scalar(Scalar::one().to_bytes()),
        "minus_one" => Draw::Scalar((-Scalar::one()).to_bytes()),
        _ => Draw::Generic,
    }
}
fn bf_of(s: &Scalar) -> BlindingFactor {
    bincode::deserialize(&s.to_bytes()).unwrap()
}
/// formal value of a blinding factor class: <<constant, coefficient of generic a, of generic b>>
fn bf_vec(class: &str) -> [i64; 3] {
    match class {
        "zero" => [0, 0, 0],
        "one" => [1, 0, 0],
        "minus_one" => [-1, 0, 0],
        "a" => [0, 1, 0],
        _ => [0, 0, 1],
    }
}

enum SigObj {
    Plain(Signature),
    Blinded(BlindedSignature),
}

/// message class vectors for tuple length N
fn message_classes(n: usize) -> Vec<Vec<&'static str>> {
    let mut v: Vec<Vec<&'static str>> = vec![vec!["random"; n], vec!["zero"; n], vec!["one"; n], vec!["minus_one"; n], vec!["small"; n]];
    if n >= 2 {
        // a zero entry followed by a non-zero entry, and the reverse
        let mut a = vec!["random"; n];
        a[0] = "zero";
        v.push(a);
        let mut b = vec!["random"; n];
        b[n - 1] = "zero";
        v.push(b);
        let mut c = vec!["zero"; n];
        c[n - 1] = "random";
        v.push(c);
    }
    if n >= 3 {
        let mut a = vec!["random"; n];
        a[1] = "zero";
        v.push(a);
    }
    // machine-word boundary entries (2^63 .. 2^64-1 do not fit an i64, 2^64 not a u64; q-7, q-2^63 are "small negatives")
    for w in ["two63", "two64m1", "neg_small"] {
        v.push(vec![w; n]);
    }
    v.push(vec!["top_byte"; n]);
    v.push(vec!["ones129"; n]);
    let words = ["two63p1", "two64", "two128", "neg_two63", "top_byte", "ones128", "ones129", "ones192", "two63", "two64m1", "neg_small"];
    let mut a = vec!["random"; n];
    for i in 0..n { if i % 2 == 0 { a[i] = words[(i / 2) % words.len()]; } }
    v.push(a);
    // the last entry solved so that x + SUM y_i m_i = 0 under the signing key (psig only: the honest signature
    // then has sigma2 = identity and still verifies); elsewhere "kernel" is just a random entry
    let mut k = vec!["random"; n];
    k[n - 1] = "kernel";
    v.push(k);
    v
}

type Op = (&'static str, &'static str, &'static str); // (op, randomiser class, blinding factor class)

fn chains(thorough: bool) -> Vec<Vec<Op>> {
    let rs: Vec<&'static str> = if thorough { vec!["generic", "one", "minus_one", "zero"] } else { vec!["generic", "one", "zero"] };
    let mut c: Vec<Vec<Op>> = vec![vec![]];
    for &r in &rs {
        c.push(vec![("randomize", r, "")]);
        c.push(vec![("blind_and_randomize", r, "a"), ("unblind", "", "a")]);
        c.push(vec![("blind_and_randomize", r, "a"), ("brandomize", "generic", ""), ("unblind", "", "a")]);
        c.push(vec![("blind_and_randomize", "generic", "a"), ("brandomize", r, ""), ("unblind", "", "a")]);
        c.push(vec![("blindsign", r, "a"), ("unblind", "", "a")]);
        c.push(vec![("blindsign", r, "a"), ("brandomize", "generic", ""), ("unblind", "", "a")]);
        c.push(vec![("randomize", "generic", ""), ("randomize", r, "")]);
    }
    // wrong or missing blinding factors
    c.push(vec![("blind_and_randomize", "generic", "a"), ("unblind", "", "b")]);
    c.push(vec![("blind_and_randomize", "generic", "a"), ("unblind", "", "zero")]);
    c.push(vec![("blind_and_randomize", "generic", "zero"), ("unblind", "", "zero")]);
    c.push(vec![("blind_and_randomize", "generic", "one"), ("unblind", "", "one")]);
    c.push(vec![("blind_and_randomize", "generic", "one"), ("unblind", "", "zero")]);
    c.push(vec![("blind_and_randomize", "generic", "zero"), ("unblind", "", "one")]);
    c.push(vec![("blind_and_randomize", "generic", "one"), ("unblind", "", "minus_one")]);
    c.push(vec![("blindsign", "generic", "a"), ("unblind", "", "b")]);
    c.push(vec![("blindsign", "generic", "a"), ("unblind", "", "zero")]);
    c.push(vec![("blindsign", "generic", "zero"), ("unblind", "", "zero")]);
    c.push(vec![("blindsign", "generic", "one"), ("unblind", "", "one")]);
    c.push(vec![("blindsign", "generic", "one"), ("unblind", "", "zero")]);
    // longer chains
    c.push(vec![("blind_and_randomize", "generic", "a"), ("unblind", "", "a"), ("blind_and_randomize", "generic", "b"), ("unblind", "", "b")]);
    c.push(vec![("blind_and_randomize", "generic", "a"), ("unblind", "", "a"), ("blind_and_randomize", "generic", "b"), ("unblind", "", "a")]);
    c.push(vec![("randomize", "generic", ""), ("blind_and_randomize", "generic", "a"), ("unblind", "", "a"), ("randomize", "generic", "")]);
    c.push(vec![("blindsign", "generic", "a"), ("unblind", "", "a"), ("blind_and_randomize", "generic", "b"), ("unblind", "", "b")]);
    c
}

fn psig_n<const N: usize>(rng: &mut StdRng, thorough: bool, out: &mut Vec<Value>) {
    let kp = KeyPair::<N>::new(rng);
    let pk = kp.public_key().clone();
    let other = KeyPair::<N>::new(rng);
    let pkv = Pk::from_tree(&Tree::of(&pk), "").unwrap();
    let opkv = Pk::from_tree(&Tree::of(other.public_key()), "").unwrap();
    let ga = Scalar::random(&mut *rng);
    let gb = Scalar::random(&mut *rng);
    let bfval = |class: &str| -> Scalar {
        match class { "zero" => Scalar::zero(), "one" => Scalar::one(), "minus_one" => -Scalar::one(), "a" => ga, _ => gb }
    };
    let mcs = message_classes(N);
    let chs = chains(thorough);
    // the secret scalars, read from the key pair's wire form (for the "kernel" message class)
    let kt = Tree::of(&kp);
    let skx = indep::sc(kt.bytes_at("sk.x").expect("sk.x")).unwrap();
    let sky: Vec<Scalar> = (0..N).map(|i| indep::sc(kt.bytes_at(&format!("sk.ys.{}", i)).expect("sk.ys")).unwrap()).collect();
    // key variants: ONE G2 field of the public key replaced by another valid element
    let pkt = Tree::of(&pk);
    let mut variants: Vec<(String, PublicKey<N>, Pk)> = vec![];
    {
        let mut fields = vec!["g2".to_string(), "x2".to_string()];
        for i in 0..N { if i < 3 || i == N - 1 { fields.push(format!("y2s.{}", i)); } }
        for f in fields {
            let l = pkt.get(&f).unwrap_or_else(|| panic!("public key layout: {}", f)).clone();
            let mut b = pkt.bytes.clone();
            let new = G2Affine::from(G2Projective::from(indep::g2(&pkt.bytes[l.off..l.off + 96]).unwrap()) + G2Projective::generator()).to_compressed();
            b[l.off..l.off + 96].copy_from_slice(&new);
            let vpk: PublicKey<N> = bincode::deserialize(&b).expect("variant key decodes");
            let vv = Pk::from_tree(&Tree { bytes: b, leaves: pkt.leaves.clone() }, "").unwrap();
            variants.push((f, vpk, vv));
        }
    }
    // verification HISTORY: genuine key, a variant, the genuine key again, the next variant, ... on one honest
    // signature - every verdict must be the PS relation under the key actually passed
    for mc in [&mcs[0], &mcs[2]] {
        // (random and all-one messages: with a zero entry the corresponding Y~_i does not enter the relation)
        let mut mv = [Scalar::zero(); N];
        for i in 0..N { mv[i] = class_scalar(mc[i], rng); }
        let msg = Message::<N>::new(mv);
        let sig = msg.sign(&mut *rng, &kp);
        let (s1, s2) = (sig.sigma1(), sig.sigma2());
        let (wf, pe) = indep::ps_relation(&pkv, &mv, &s1, &s2);
        let mut checks = vec![json!({"kind": "same", "verdict": sig.verify(&pk, &msg), "pairing_eq": pe})];
        for round in 0..2 {
            for (f, vpk, vv) in variants.iter() {
                let (_, pev) = indep::ps_relation(vv, &mv, &s1, &s2);
                checks.push(json!({"kind": "keyfield", "field": f, "round": round, "verdict": sig.verify(vpk, &msg), "pairing_eq": pev}));
                checks.push(json!({"kind": "same", "after": f, "verdict": sig.verify(&pk, &msg), "pairing_eq": pe}));
            }
        }
        out.push(json!({"ev": "psig", "N": N, "msg": mc, "ops": [], "s1_is_identity": !wf, "checks": checks, "history": "key variants"}));
    }
    for (mi, mc) in mcs.iter().enumerate() {
        for (ci, ch) in chs.iter().enumerate() {
            // the chain semantics do not depend on N: all chains for N <= 3, a rotating sample for larger N
            if N > 3 && (mi + ci) % (if thorough { 2 } else { 5 }) != 0 { continue; }
            if !thorough && N == 3 && (mi + ci) % 2 != 0 { continue; }
            let mut mv = [Scalar::zero(); N];
            for i in 0..N { mv[i] = class_scalar(mc[i], rng); }
            if mc[N - 1] == "kernel" {
                let mut acc = skx;
                for i in 0..N - 1 { acc += sky[i] * mv[i]; }
                mv[N - 1] = -acc * Option::<Scalar>::from(sky[N - 1].invert()).unwrap();
            }
            let msg = Message::<N>::new(mv);
            let res = catch_unwind(AssertUnwindSafe(|| {
                let mut ops = vec![];
                let mut obj = if (ci + mi) % 3 == 0 {
                    // signing randomness whose first draws are all-zero bytes (whatever their width): still a valid signature
                    let mut z = Scripted::new(vec![Draw::Zero; 3], ci as u64 * 31 + mi as u64);
                    z.scalar_only = false;
                    ops.push(json!({"op": "sign", "r": "zero", "bf": [0, 0, 0]}));
                    SigObj::Plain(msg.sign(&mut z, &kp))
                } else {
                    SigObj::Plain(msg.sign(&mut seeded(ci as u64 * 31 + mi as u64, 9), &kp))
                };
                for &(op, rc, bc) in ch {
                    let mut srng = Scripted::new(vec![class_draw(rc)], 17 + ci as u64);
                    obj = match (op, obj) {
                        ("randomize", SigObj::Plain(mut s)) => { s.randomize(&mut srng); SigObj::Plain(s) }
                        ("brandomize", SigObj::Blinded(mut b)) => { b.randomize(&mut srng); SigObj::Blinded(b) }
                        ("blind_and_randomize", SigObj::Plain(s)) => SigObj::Blinded(s.blind_and_randomize(&mut srng, bf_of(&bfval(bc)))),
                        ("unblind", SigObj::Blinded(b)) => SigObj::Plain(b.unblind(bf_of(&bfval(bc)))),
                        ("blindsign", _) => {
                            // a fresh blind signature on the same message through the request protocol
                            let mut r2 = seeded(99 + ci as u64, 3);
                            let bf = bfval(bc);
                            // the builder draws its own blinding factor first: script it to the chosen value
                            let mut brng = Scripted::new(vec![Draw::Scalar(bf.to_bytes())], 5);
                            let b = SignatureRequestProofBuilder::<N>::generate_proof_commitments(&mut brng, Message::<N>::new(mv), &[None; N], &pk);
                            let reported = b.message_blinding_factor().as_scalar();
                            let c = ChallengeBuilder::new().with(&b).finish();
                            let p = b.generate_proof_response(c);
                            let vbm = p.verify_knowledge_of_opening(&pk, c).expect("honest request verifies");
                            // (harness assumption, checked only once the library accepted its own request: the builder's
                            //  blinding factor is its first scalar draw)
                            assert_eq!(reported, bf);
                            let _ = &mut r2;
                            SigObj::Blinded(vbm.blind_sign(&kp, &mut srng))
                        }
                        (o, _) => panic!("chain not well-typed at {}", o),
                    };
                    ops.push(json!({"op": op, "r": rc, "bf": bf_vec(bc)}));
                }
                let sig = match obj {
                    SigObj::Plain(s) => s,
                    SigObj::Blinded(_) => panic!("chain ends blinded"),
                };
                (sig, ops)
            }));
            let (sig, ops) = match res {
                Ok(x) => x,
                Err(e) => {
                    let msg = panic_message(e);
                    if msg.contains("honest request verifies") {
                        // the library refused the honest signature request of a blindsign step: a C08 / C11 observation
                        out.push(json!({"ev": "request", "N": N, "msg": mc, "tamper": "none", "schnorr_holds": true, "out": "none", "in_chain": true}));
                    } else {
                        out.push(json!({"ev": "psig", "N": N, "error": msg}));
                    }
                    continue;
                }
            };
            let (s1, s2) = (sig.sigma1(), sig.sigma2());
            let mut checks = vec![];
            let (wf, pe) = indep::ps_relation(&pkv, &mv, &s1, &s2);
            checks.push(json!({"kind": "same", "verdict": sig.verify(&pk, &msg), "pairing_eq": pe}));
            let (_, pe_any) = indep::ps_relation(&pkv, &[Scalar::from(12345u64); N], &s1, &s2);
            checks.push(json!({"kind": "pairing_any", "verdict": sig.verify(&pk, &Message::<N>::new([Scalar::from(12345u64); N])) , "pairing_eq": pe_any}));
            for i in 0..N {
                let deltas: Vec<Scalar> = if thorough || N <= 2 { vec![Scalar::one(), -Scalar::one(), -mv[i] + Scalar::from(3u64)] } else { vec![Scalar::one()] };
                for delta in deltas {
                    let mut m2 = mv;
                    m2[i] += delta;
                    if m2[i] == mv[i] { continue; }
                    let (_, pe2) = indep::ps_relation(&pkv, &m2, &s1, &s2);
                    checks.push(json!({"kind": "coord", "idx": i, "verdict": sig.verify(&pk, &Message::<N>::new(m2)), "pairing_eq": pe2}));
                }
                if N >= 2 && (thorough || N <= 3 || i % 4 == 0) {
                    // swap coordinate i with its neighbour (catches misaligned key / message pairing)
                    let j = (i + 1) % N;
                    let mut m3 = mv;
                    m3.swap(i, j);
                    if m3 != mv {
                        let (_, pe3) = indep::ps_relation(&pkv, &m3, &s1, &s2);
                        checks.push(json!({"kind": "coord", "idx": i, "swap": j, "verdict": sig.verify(&pk, &Message::<N>::new(m3)), "pairing_eq": pe3}));
                    }
                }
            }
            let (_, peo) = indep::ps_relation(&opkv, &mv, &s1, &s2);
            checks.push(json!({"kind": "otherkey", "verdict": sig.verify(other.public_key(), &msg), "pairing_eq": peo}));
            // "pairing_any" is only meaningful for the identity signature; drop its verdict constraint otherwise
            out.push(json!({"ev": "psig", "N": N, "msg": mc, "ops": ops, "s1_is_identity": !wf, "checks": checks}));
        }
    }
    // ---- C08: signature requests, honest and tampered
    for mc in mcs.iter().take(if thorough { 99 } else { 4 }) {
        let mut mv = [Scalar::zero(); N];
        for i in 0..N { mv[i] = class_scalar(mc[i], rng); }
        let b = SignatureRequestProofBuilder::<N>::generate_proof_commitments(rng, Message::<N>::new(mv), &[None; N], &pk);
        let c = ChallengeBuilder::new().with(&b).finish();
        let bf = b.message_blinding_factor();
        let p = b.generate_proof_response(c);
        let tree = Tree::of(&p);
        let mut smallorder_case: Option<(Vec<u8>, zkchannels_crypto::proofs::Challenge)> = None;
        let mut cases: Vec<(String, Vec<u8>, bool)> = vec![("none".into(), tree.bytes.clone(), false)];
        for l in tree.atoms() {
            let mut bts = tree.bytes.clone();
            let new: Vec<u8> = match l.len {
                32 => (indep::sc(&tree.bytes[l.off..l.off + 32]).unwrap() + Scalar::one()).to_bytes().to_vec(),
                _ => G1Affine::from(G1Projective::from(indep::g1(&tree.bytes[l.off..l.off + 48]).unwrap()) + G1Projective::generator()).to_compressed().to_vec(),
            };
            bts[l.off..l.off + l.len].copy_from_slice(&new);
            cases.push((l.path.clone(), bts, false));
        }
        // swap commitment and scalar commitment
        {
            let mut bts = tree.bytes.clone();
            let a = tree.get("commitment_proof.commitment").unwrap().clone();
            let t = tree.get("commitment_proof.scalar_commitment").unwrap().clone();
            let (ab, tb) = (tree.bytes[a.off..a.off + 48].to_vec(), tree.bytes[t.off..t.off + 48].to_vec());
            bts[a.off..a.off + 48].copy_from_slice(&tb);
            bts[t.off..t.off + 48].copy_from_slice(&ab);
            cases.push(("swap C/T".into(), bts, false));
        }
        cases.push(("challenge".into(), tree.bytes.clone(), true));
        cases.push(("other key".into(), tree.bytes.clone(), false));
        // two fields tampered so that their errors cancel IF the challenge does not move: T + d*g1 and zbf + d;
        // C replaced with T solved for it (a request for a commitment with unknown opening).  These - and every
        // single-atom tamper again - are also presented under the challenge RECOMPUTED from the received request.
        let recomputed: Vec<(String, Vec<u8>, bool)> = {
            let mut v = vec![];
            let d = Scalar::from(5u64);
            let mut bts = tree.bytes.clone();
            let t = tree.get("commitment_proof.scalar_commitment").unwrap().clone();
            let zb = tree.get("commitment_proof.blinding_factor_response_scalar").unwrap().clone();
            let tt = G1Projective::from(indep::g1(&tree.bytes[t.off..t.off + 48]).unwrap()) + G1Projective::from(pkv.g1) * d;
            bts[t.off..t.off + 48].copy_from_slice(&G1Affine::from(tt).to_compressed());
            let z = indep::sc(&tree.bytes[zb.off..zb.off + 32]).unwrap() + d;
            bts[zb.off..zb.off + 32].copy_from_slice(&z.to_bytes());
            v.push(("T + d*g1 and zbf + d, challenge recomputed from the request".to_string(), bts, false));
            for (name, b, _) in cases.iter().filter(|c| c.0 != "none" && c.0 != "challenge" && c.0 != "other key") {
                v.push((format!("{}, challenge recomputed from the request", name), b.clone(), false));
            }
            v
        };
        let n_plain = cases.len();
        cases.extend(recomputed);
        // the commitment moved by the order-3 curve point (0, 2) outside G1, for a proof whose challenge is divisible
        // by 3 (then [c]T vanishes from the Schnorr equation); refused by the decoder on a correct tree
        {
            let mut found = None;
            for attempt in 0..40u64 {
                let mut r3 = seeded(attempt, 777 + N as u64);
                let b3 = SignatureRequestProofBuilder::<N>::generate_proof_commitments(&mut r3, Message::<N>::new(mv), &[None; N], &pk);
                let t3 = Tree::of(&b3.clone().generate_proof_response(c));
                // the challenge the verifier derives from the TAMPERED request
                let l = t3.get("commitment_proof.commitment").unwrap().clone();
                let mut small = [0u8; 48];
                small[0] = 0x80;
                let tors = match Option::<G1Affine>::from(G1Affine::from_compressed_unchecked(&small)) { Some(p) => p, None => break };
                let cplus = G1Affine::from(G1Projective::from(indep::g1(&t3.bytes[l.off..l.off + 48]).unwrap()) + G1Projective::from(tors));
                let enc = cplus.to_compressed();
                // transcript of a request = commitment || scalar commitment: rebuild the challenge with the tampered C
                let tl = t3.get("commitment_proof.scalar_commitment").unwrap().clone();
                let mut bts0 = t3.bytes.clone();
                bts0[l.off..l.off + 48].copy_from_slice(&enc);
                let c3 = match bincode::deserialize::<zkchannels_crypto::proofs::SignatureRequestProof<N>>(&bts0) {
                    Ok(p) => ChallengeBuilder::new().with(&p).finish(),      // what the verifier derives from the received request
                    Err(_) => ChallengeBuilder::new().with_bytes(&enc).with_bytes(&t3.bytes[tl.off..tl.off + 48]).finish(),
                };
                let cb = c3.to_scalar().to_bytes();
                let mut rem = 0u32;
                for byte in cb.iter().rev() { rem = (rem * 256 + *byte as u32) % 3; }
                if rem == 0 {
                    let p3 = b3.generate_proof_response(c3);
                    let mut bts = Tree::of(&p3).bytes;
                    bts[l.off..l.off + 48].copy_from_slice(&enc);
                    found = Some((bts, c3));
                    break;
                }
            }
            if let Some((bts, c3)) = found {
                smallorder_case = Some((bts, c3));
            }
        }
        for (idx, (tamper, bts, wrong_chal)) in cases.into_iter().enumerate() {
            let p2: zkchannels_crypto::proofs::SignatureRequestProof<N> = match bincode::deserialize(&bts) { Ok(p) => p, Err(_) => continue };
            let ch = if wrong_chal { ChallengeBuilder::new().with(&p2).with_bytes(b"x").finish() } else if idx >= n_plain { ChallengeBuilder::new().with(&p2).finish() } else { c };
            let vpk = if tamper == "other key" { other.public_key() } else { &pk };
            let vpkv = if tamper == "other key" { &opkv } else { &pkv };
            let cp = Cp::from_tree(&Tree { bytes: bts.clone(), leaves: tree.leaves.clone() }, "commitment_proof").unwrap();
            let schnorr = cp.schnorr_g1(&vpkv.g1, &vpkv.y1s, &ch.to_scalar());
            let r = catch_unwind(AssertUnwindSafe(|| p2.verify_knowledge_of_opening(vpk, ch)));
            let mut ev = json!({"ev": "request", "N": N, "msg": mc, "tamper": tamper, "schnorr_holds": schnorr});
            match r {
                Ok(Some(vbm)) => {
                    ev["out"] = json!("some");
                    if tamper == "none" {
                        // the blind-signable value is the commitment the proof is about: signing it and
                        // unblinding with the requester's factor verifies on the message and on nothing else
                        let sig = vbm.blind_sign(&kp, rng).unblind(bf);
                        let mut ok = sig.verify(&pk, &Message::<N>::new(mv));
                        for i in 0..N {
                            let mut m2 = mv;
                            m2[i] += Scalar::one();
                            ok = ok && !sig.verify(&pk, &Message::<N>::new(m2));
                        }
                        ev["signs_the_proven_message"] = json!(ok);
                        if !ok { ev["out"] = json!("some-but-wrong-value"); }
                    }
                }
                Ok(None) => ev["out"] = json!("none"),
                Err(e) => ev["out"] = json!(format!("panic:{}", panic_message(e))),
            }
            out.push(ev);
        }
        if let Some((bts, c3)) = smallorder_case {
            let mut ev = json!({"ev": "request", "N": N, "msg": mc, "tamper": "commitment + order-3 point outside G1, challenge divisible by 3", "schnorr_holds": false});
            ev["out"] = match bincode::deserialize::<zkchannels_crypto::proofs::SignatureRequestProof<N>>(&bts) {
                Err(_) => json!("none"),      // refused by the decoder
                Ok(p3) => match catch_unwind(AssertUnwindSafe(|| p3.verify_knowledge_of_opening(&pk, c3))) {
                    Ok(Some(_)) => json!("some"),
                    Ok(None) => json!("none"),
                    Err(e) => json!(format!("panic:{}", panic_message(e))),
                },
            };
            out.push(ev);
        }
    }
}

// ---- capabilities of the proof-gated types, decided at compile time (autoref specialisation): a blind-signable value
// must come from a verifying proof, so these types are not decodable from bytes; the one-shot ones are not Clone
struct Probe<T>(std::marker::PhantomData<T>);
trait ProbeNo { fn is_de(&self) -> bool { false } fn is_clone(&self) -> bool { false } }
impl<T> ProbeNo for &Probe<T> {}
trait ProbeDe { fn is_de(&self) -> bool; }
impl<T: serde::de::DeserializeOwned> ProbeDe for Probe<T> { fn is_de(&self) -> bool { true } }
trait ProbeClone { fn is_clone(&self) -> bool; }
impl<T: Clone> ProbeClone for Probe<T> { fn is_clone(&self) -> bool { true } }
macro_rules! probe_de { ($t:ty) => { (&Probe::<$t>(std::marker::PhantomData)).is_de() }; }
macro_rules! probe_clone { ($t:ty) => { (&Probe::<$t>(std::marker::PhantomData)).is_clone() }; }

fn capabilities(out: &mut Vec<Value>) {
    use zkchannels_crypto::pointcheval_sanders::VerifiedBlindedMessage;
    out.push(json!({"ev": "capability", "type": "VerifiedBlindedMessage", "deserialize": probe_de!(VerifiedBlindedMessage), "clone_forbidden": false, "clone": probe_clone!(VerifiedBlindedMessage)}));
    out.push(json!({"ev": "capability", "type": "VerifiedBlindedState", "deserialize": probe_de!(zkabacus_crypto::VerifiedBlindedState), "clone_forbidden": true, "clone": probe_clone!(zkabacus_crypto::VerifiedBlindedState)}));
    out.push(json!({"ev": "capability", "type": "merchant::Unrevoked", "deserialize": probe_de!(zkabacus_crypto::merchant::Unrevoked<'static>), "clone_forbidden": true, "clone": probe_clone!(zkabacus_crypto::merchant::Unrevoked<'static>)}));
}

pub fn psig(seed: u64, thorough: bool) -> Vec<Value> {
    // one thread per tuple length
    macro_rules! spawn_n {
        ($n:literal) => {
            std::thread::spawn(move || {
                let mut rng = seeded(seed, 61 + $n);
                let mut out = vec![];
                psig_n::<$n>(&mut rng, thorough, &mut out);
                out
            })
        };
    }
    let hs = vec![spawn_n!(1), spawn_n!(2), spawn_n!(3), spawn_n!(5), spawn_n!(8), spawn_n!(13)];
    let mut out = vec![];
    capabilities(&mut out);
    for h in hs {
        out.extend(h.join().expect("psig worker"));
    }
    out
}


// ====================================================================== Pedersen (C09)

trait Grp: Group<Scalar = Scalar> + group::GroupEncoding + zkchannels_crypto::SerializeElement + Copy {
    const NAME: &'static str;
}
impl Grp for G1Projective { const NAME: &'static str = "G1"; }
impl Grp for G2Projective { const NAME: &'static str = "G2"; }

fn pedersen_n<G: Grp, const N: usize>(rng: &mut StdRng, thorough: bool, out: &mut Vec<Value>) {
    let classes = ["zero", "one", "minus_one", "random"];
    // parameter sets: generated by the library (read back through the wire tree) and supplied explicitly,
    // including generators with a known relation (g_1 = h)
    let mut gens: Vec<(&str, G, Vec<G>)> = vec![];
    {
        let p = PedersenParameters::<G, N>::new(rng);
        let t = Tree::of(&p);
        let rd = |path: &str| -> G {
            let b = t.bytes_at(path).unwrap();
            let w = bincode::serialize(&Wrap::<G>(G::identity())).unwrap();
            assert_eq!(w.len(), b.len());
            bincode::deserialize::<Wrap<G>>(b).unwrap().0
        };
        gens.push(("generated", rd("h"), (0..N).map(|i| rd(&format!("gs.{}", i))).collect()));
    }
    let h = G::random(&mut *rng);
    let mut gs: Vec<G> = (0..N).map(|_| G::random(&mut *rng)).collect();
    gens.push(("explicit", h, gs.clone()));
    gs[0] = h;
    gens.push(("explicit, g_1 = h", h, gs.clone()));
    for (pname, h, gs) in gens {
        let mut arr = [G::identity(); N];
        arr.copy_from_slice(&gs);
        let params = if pname == "generated" { None } else { Some(PedersenParameters::<G, N>::from_generators(h, arr)) };
        let params = params.unwrap_or_else(|| PedersenParameters::<G, N>::from_generators(h, arr));
        let mut cases: Vec<(Vec<&str>, &str)> = vec![];
        for mc in classes { for rc in classes { cases.push((vec![mc; N], rc)); } }
        if N >= 2 {
            let mut a = vec!["random"; N]; a[0] = "zero"; cases.push((a.clone(), "random")); cases.push((a, "zero"));
            let mut b = vec!["zero"; N]; b[N - 1] = "one"; cases.push((b.clone(), "minus_one")); cases.push((b, "one"));
        }
        for w in ["two63", "two63p1", "two64m1", "two64", "two128", "neg_small", "neg_two63", "ones128", "ones129", "ones192", "top_byte"] {
            cases.push((vec![w; N], "random"));
            let mut a = vec!["random"; N]; a[N - 1] = w; cases.push((a, w));
        }
        if pname == "explicit, g_1 = h" {
            // m = (1, 0, ..), r = q-1: the commitment is the identity element
            let mut a = vec!["zero"; N]; a[0] = "one"; cases.push((a, "minus_one"));
        }
        for (ci, (mc, rc)) in cases.iter().enumerate() {
            if !thorough && N > 3 && ci % 3 != 0 { continue; }
            if !thorough && pname != "generated" && ci >= 20 && ci % 2 == 1 { continue; }
            let mut mv = [Scalar::zero(); N];
            for i in 0..N { mv[i] = class_scalar(mc[i], rng); }
            let r = class_scalar(rc, rng);
            let msg = Message::<N>::new(mv);
            let com = msg.commit(&params, bf_of(&r));
            let mut acc = h * r;
            for i in 0..N { acc += gs[i] * mv[i]; }
            let elem_eq = com.to_element() == acc;
            let verify_orig = com.verify_opening(&params, bf_of(&r), &msg);
            let mut pert = vec![];
            for i in 0..N {
                for d in [Scalar::one(), -Scalar::one()] {
                    let mut m2 = mv; m2[i] += d;
                    let mut acc2 = h * r;
                    for k in 0..N { acc2 += gs[k] * m2[k]; }
                    pert.push(json!({"kind": "coord", "idx": i, "verdict": com.verify_opening(&params, bf_of(&r), &Message::<N>::new(m2)), "recomputed_eq": acc2 == acc}));
                }
            }
            for d in [Scalar::one(), -Scalar::one(), -r, Scalar::one() - r] {
                if d == Scalar::zero() { continue; }
                let r2 = r + d;
                let mut acc2 = h * r2;
                for k in 0..N { acc2 += gs[k] * mv[k]; }
                pert.push(json!({"kind": "bf", "verdict": com.verify_opening(&params, bf_of(&r2), &msg), "recomputed_eq": acc2 == acc}));
            }
            // a coordinate and the blinding factor moved in opposite directions (opens iff g_i = h): for parameters the
            // library GENERATES this must never open; for the explicit set with g_1 = h it legitimately does
            let mut combo = vec![];
            for i in 0..N.min(3) {
                let mut m2 = mv; m2[i] += Scalar::one();
                let r2 = r - Scalar::one();
                let mut acc2 = h * r2;
                for k in 0..N { acc2 += gs[k] * m2[k]; }
                combo.push(json!({"kind": "coord+1,bf-1", "idx": i, "verdict": com.verify_opening(&params, bf_of(&r2), &Message::<N>::new(m2)), "recomputed_eq": acc2 == acc}));
            }
            {
                // the opening of -C presented for C (same x-coordinate): opens only if C is its own negative (the identity)
                let mut m2 = mv;
                for k in 0..N { m2[k] = -mv[k]; }
                let r2 = -r;
                if m2 != mv || r2 != r {
                    let mut acc2 = h * r2;
                    for k in 0..N { acc2 += gs[k] * m2[k]; }
                    combo.push(json!({"kind": "negated opening", "idx": 0, "verdict": com.verify_opening(&params, bf_of(&r2), &Message::<N>::new(m2)), "recomputed_eq": acc2 == acc}));
                }
            }
            let mut distinct = true;
            for a in 0..N { if gs[a] == h { distinct = false; } for b2 in 0..a { if gs[a] == gs[b2] { distinct = false; } } }
            // homomorphism with a second opening
            let mut m2 = [Scalar::zero(); N];
            for i in 0..N { m2[i] = class_scalar(mc[(i + 1) % N], rng); }
            let r2 = class_scalar(if ci % 2 == 0 { "random" } else { "one" }, rng);
            let com2 = Message::<N>::new(m2).commit(&params, bf_of(&r2));
            let mut ms = [Scalar::zero(); N];
            for i in 0..N { ms[i] = mv[i] + m2[i]; }
            let coms = Message::<N>::new(ms).commit(&params, bf_of(&(r + r2)));
            let additive = com.to_element() + com2.to_element() == coms.to_element();
            // a commitment to something else does not open
            let other = Message::<N>::new(m2).commit(&params, bf_of(&r2));
            let other_differs = other.to_element() != com.to_element();
            let other_verdict = other.verify_opening(&params, bf_of(&r), &msg);
            out.push(json!({"ev": "pedersen", "group": G::NAME, "N": N, "params": pname, "m": mc, "r": rc, "elem_eq_independent": elem_eq,
                            "verify_original": verify_orig, "commitment_is_identity": bool::from(acc.is_identity()), "perturbed": pert, "combined": combo, "generators_distinct": distinct, "additive": additive,
                            "other": {"differs": other_differs, "verdict": other_verdict}}));
        }
    }
}

/// Parameter objects have no memory: a commitment depends on the generators the object holds NOW.  Lifecycle histories
/// around one object and one thread: use P, overwrite it in place with Q (`clone_from`), use it again; use P1, drop it on
/// ANOTHER thread, create P2 (same group and length, possibly at the recycled address), use it.
fn pedersen_lifecycle<G: Grp + Send + 'static, const N: usize>(rng: &mut StdRng, out: &mut Vec<Value>) {
    let mk = |rng: &mut StdRng| -> (G, Vec<G>, PedersenParameters<G, N>) {
        let h = G::random(&mut *rng);
        let gs: Vec<G> = (0..N).map(|_| G::random(&mut *rng)).collect();
        let mut arr = [G::identity(); N];
        arr.copy_from_slice(&gs);
        (h, gs, PedersenParameters::<G, N>::from_generators(h, arr))
    };
    let indep_commit = |h: &G, gs: &[G], mv: &[Scalar; N], r: &Scalar| -> G { let mut acc = *h * *r; for i in 0..N { acc += gs[i] * mv[i]; } acc };
    let mut mv = [Scalar::zero(); N];
    for i in 0..N { mv[i] = Scalar::random(&mut *rng); }
    let r = Scalar::random(&mut *rng);
    let msg = Message::<N>::new(mv);
    // (1) clone_from
    {
        let (h1, g1, mut p) = mk(rng);
        let (h2, g2, q) = mk(rng);
        let c1 = msg.commit(&p, bf_of(&r));
        let ok1 = c1.to_element() == indep_commit(&h1, &g1, &mv, &r) && c1.verify_opening(&p, bf_of(&r), &msg);
        p.clone_from(&q);
        let c2 = msg.commit(&p, bf_of(&r));
        let ok2 = c2.to_element() == indep_commit(&h2, &g2, &mv, &r) && c2.verify_opening(&p, bf_of(&r), &msg);
        let old_opens = c1.verify_opening(&p, bf_of(&r), &msg);
        out.push(json!({"ev": "pedersen_lifecycle", "group": G::NAME, "N": N, "history": "use, clone_from another set, use", "before_ok": ok1, "after_ok": ok2,
                        "old_commitment_opens_under_new_generators": old_opens, "equal_to_source": p == q}));
    }
    // (2) drop on another thread, then a new set on this thread
    for round in 0..6 {
        let (h1, g1, p1) = mk(rng);
        let c1 = msg.commit(&p1, bf_of(&r));
        let ok1 = c1.to_element() == indep_commit(&h1, &g1, &mv, &r);
        std::thread::spawn(move || drop(p1)).join().expect("dropper");
        let (h2, g2, p2) = mk(rng);
        let c2 = msg.commit(&p2, bf_of(&r));
        let ok2 = c2.to_element() == indep_commit(&h2, &g2, &mv, &r) && c2.verify_opening(&p2, bf_of(&r), &msg);
        out.push(json!({"ev": "pedersen_lifecycle", "group": G::NAME, "N": N, "history": format!("use, drop on another thread, new set, use (round {})", round), "before_ok": ok1, "after_ok": ok2,
                        "old_commitment_opens_under_new_generators": c1.verify_opening(&p2, bf_of(&r), &msg), "equal_to_source": true}));
    }
}

#[derive(serde::Serialize, serde::Deserialize)]
#[serde(bound = "G: zkchannels_crypto::SerializeElement")]
struct Wrap<G: zkchannels_crypto::SerializeElement>(#[serde(with = "zkchannels_crypto::SerializeElement")] G);

pub fn pedersen(seed: u64, thorough: bool) -> Vec<Value> {
    macro_rules! spawn_n {
        ($n:literal) => {
            std::thread::spawn(move || {
                let mut rng = seeded(seed, 620 + $n);
                let mut out = vec![];
                pedersen_n::<G1Projective, $n>(&mut rng, thorough, &mut out);
                pedersen_n::<G2Projective, $n>(&mut rng, thorough, &mut out);
                pedersen_lifecycle::<G1Projective, $n>(&mut rng, &mut out);
                pedersen_lifecycle::<G2Projective, $n>(&mut rng, &mut out);
                out
            })
        };
    }
    // (17 is outside the tuple lengths the library uses; it crosses the 16-term block boundary of blocked sums)
    let hs = vec![spawn_n!(1), spawn_n!(2), spawn_n!(3), spawn_n!(5), spawn_n!(8), spawn_n!(13), spawn_n!(17)];
    let mut out = vec![];
    for h in hs { out.extend(h.join().expect("pedersen worker")); }
    out
}


// ====================================================================== Schnorr proofs (C10, C11)

/// [q]P for the group order q (P any curve point): lands in the cofactor torsion
fn mul_by_order_g1(p: G1Projective) -> G1Projective {
    const Q: [u64; 4] = [0xffff_ffff_0000_0001, 0x53bd_a402_fffe_5bfe, 0x3339_d808_09a1_d805, 0x73ed_a753_299d_7d48];
    let mut acc = G1Projective::identity();
    for limb in Q.iter().rev() {
        for bit in (0..64).rev() {
            acc = acc.double();
            if (limb >> bit) & 1 == 1 { acc += p; }
        }
    }
    acc
}
/// a non-identity G1 point of small order (outside the prime-order subgroup), if one can be found
pub fn torsion_point_g1(rng: &mut StdRng) -> Option<G1Projective> {
    use rand::RngCore;
    for _ in 0..200 {
        let mut b = [0u8; 48];
        rng.fill_bytes(&mut b);
        b[0] = (b[0] & 0x1f) | 0x80;
        if let Some(p) = Option::<G1Affine>::from(G1Affine::from_compressed_unchecked(&b)) {
            if bool::from(p.is_torsion_free()) { continue; }
            let t = mul_by_order_g1(G1Projective::from(p));
            if !bool::from(t.is_identity()) { return Some(t); }
        }
    }
    None
}

struct ProofCase {
    case: String,
    bytes: Vec<u8>,
    wrong_challenge: bool,
    other_params: bool,
}

/// perturbation cases of a serialized proof (every atom; swap C/T; identity elements)
fn perturbations(tree: &Tree, rng: &mut StdRng, thorough: bool) -> Vec<ProofCase> {
    let mut v = vec![];
    for l in tree.atoms() {
        let orig = &tree.bytes[l.off..l.off + l.len];
        let mut alts: Vec<(String, Vec<u8>)> = vec![];
        match l.len {
            32 => {
                alts.push(("+1".into(), (indep::sc(orig).unwrap() + Scalar::one()).to_bytes().to_vec()));
                if thorough { alts.push(("random".into(), Scalar::random(&mut *rng).to_bytes().to_vec())); }
            }
            48 => {
                let p = G1Projective::from(indep::g1(orig).unwrap());
                alts.push(("+generator".into(), G1Affine::from(p + G1Projective::generator()).to_compressed().to_vec()));
                alts.push(("identity".into(), G1Affine::identity().to_compressed().to_vec()));
                if let Some(t) = torsion_point_g1(rng) {
                    alts.push(("+small-order point".into(), G1Affine::from(p + t).to_compressed().to_vec()));
                }
                alts.push(("negated".into(), G1Affine::from(-p).to_compressed().to_vec()));
            }
            _ => {
                let p = G2Projective::from(indep::g2(orig).unwrap());
                alts.push(("+generator".into(), G2Affine::from(p + G2Projective::generator()).to_compressed().to_vec()));
                alts.push(("identity".into(), G2Affine::identity().to_compressed().to_vec()));
                alts.push(("negated".into(), G2Affine::from(-p).to_compressed().to_vec()));
            }
        }
        for (name, nb) in alts {
            let mut b = tree.bytes.clone();
            b[l.off..l.off + l.len].copy_from_slice(&nb);
            v.push(ProofCase { case: format!("perturb:{}:{}", l.path, name), bytes: b, wrong_challenge: false, other_params: false });
        }
    }
    // every response scalar negated at once (same x-coordinate on both sides of the Schnorr equation)
    {
        let mut b = tree.bytes.clone();
        let mut any = false;
        for l in tree.atoms() {
            if l.len == 32 && l.path.contains("response") {
                let z = indep::sc(&tree.bytes[l.off..l.off + 32]).unwrap();
                b[l.off..l.off + 32].copy_from_slice(&(-z).to_bytes());
                any = true;
            }
        }
        if any { v.push(ProofCase { case: "perturb:all responses negated".into(), bytes: b, wrong_challenge: false, other_params: false }); }
    }
    // swap commitment and scalar commitment
    let c = tree.leaves.iter().find(|l| l.path.ends_with("commitment") && !l.path.ends_with("scalar_commitment")).cloned();
    let t = tree.leaves.iter().find(|l| l.path.ends_with("scalar_commitment")).cloned();
    if let (Some(c), Some(t)) = (c, t) {
        let mut b = tree.bytes.clone();
        let (cb, tb) = (tree.bytes[c.off..c.off + c.len].to_vec(), tree.bytes[t.off..t.off + t.len].to_vec());
        b[c.off..c.off + c.len].copy_from_slice(&tb);
        b[t.off..t.off + t.len].copy_from_slice(&cb);
        v.push(ProofCase { case: "perturb:swap C/T".into(), bytes: b, wrong_challenge: false, other_params: false });
    }
    v.push(ProofCase { case: "challenge".into(), bytes: tree.bytes.clone(), wrong_challenge: true, other_params: false });
    v.push(ProofCase { case: "params".into(), bytes: tree.bytes.clone(), wrong_challenge: false, other_params: true });
    v
}

fn linked_subsets(n: usize, thorough: bool) -> Vec<Vec<usize>> {
    let mut v = vec![vec![], (0..n).collect::<Vec<_>>()];
    if n <= 5 && (thorough || n <= 3) {
        for mask in 1u32..((1 << n) - 1) { v.push((0..n).filter(|i| mask >> i & 1 == 1).collect()); }
    } else {
        for i in 0..n { v.push(vec![i]); }
        if n >= 2 { v.push(vec![0, n - 1]); }
    }
    v
}

fn schnorr_n<const N: usize>(rng: &mut StdRng, thorough: bool, out: &mut Vec<Value>) {
    let kp = KeyPair::<N>::new(rng);
    let pk = kp.public_key().clone();
    let pkv = Pk::from_tree(&Tree::of(&pk), "").unwrap();
    let okp = KeyPair::<N>::new(rng);
    let opkv = Pk::from_tree(&Tree::of(okp.public_key()), "").unwrap();
    let p1 = PedersenParameters::<G1Projective, N>::new(rng);
    let p2 = PedersenParameters::<G2Projective, N>::new(rng);
    let o1 = PedersenParameters::<G1Projective, N>::new(rng);
    let o2 = PedersenParameters::<G2Projective, N>::new(rng);
    let t1 = Tree::of(&p1);
    let t2 = Tree::of(&p2);
    let (h1, g1s): (G1Affine, Vec<G1Affine>) = (indep::g1(t1.bytes_at("h").unwrap()).unwrap(), (0..N).map(|i| indep::g1(t1.bytes_at(&format!("gs.{}", i)).unwrap()).unwrap()).collect());
    let (h2, g2s): (G2Affine, Vec<G2Affine>) = (indep::g2(t2.bytes_at("h").unwrap()).unwrap(), (0..N).map(|i| indep::g2(t2.bytes_at(&format!("gs.{}", i)).unwrap()).unwrap()).collect());
    let to1 = Tree::of(&o1);
    let to2 = Tree::of(&o2);
    let (oh1, og1s): (G1Affine, Vec<G1Affine>) = (indep::g1(to1.bytes_at("h").unwrap()).unwrap(), (0..N).map(|i| indep::g1(to1.bytes_at(&format!("gs.{}", i)).unwrap()).unwrap()).collect());
    let (oh2, og2s): (G2Affine, Vec<G2Affine>) = (indep::g2(to2.bytes_at("h").unwrap()).unwrap(), (0..N).map(|i| indep::g2(to2.bytes_at(&format!("gs.{}", i)).unwrap()).unwrap()).collect());
    let mcs = message_classes(N);
    let subsets = linked_subsets(N, thorough);
    let mut count = 0usize;
    for mc in &mcs {
        for sub in &subsets {
            count += 1;
            if !thorough && N >= 3 && count % (if N > 5 { 4 } else { 2 }) != 0 { continue; }
            let mut mv = [Scalar::zero(); N];
            for i in 0..N { mv[i] = class_scalar(mc[i], rng); }
            let mut link = [None; N];
            for &i in sub { link[i] = Some(class_scalar(if i % 3 == 2 { "zero" } else { "random" }, rng)); }
            let do_perturb = count % (if thorough { 3 } else { 9 }) == 1;
            // ---------------- commitment proof G1
            {
                let b = CommitmentProofBuilder::<G1Projective, N>::generate_proof_commitments(rng, Message::<N>::new(mv), &link, &p1);
                let cs = *b.conjunction_commitment_scalars();
                let cb = ChallengeBuilder::new().with(&b).with(&p1).finish();
                let p = b.generate_proof_response(cb);
                let cp = ChallengeBuilder::new().with(&p).with(&p1).finish();
                let tree = Tree::of(&p);
                let view = Cp::from_tree(&tree, "").or_else(|| cp_root(&tree)).unwrap();
                let c = cp.to_scalar();
                let zs = p.conjunction_response_scalars();
                let pat = (0..N).all(|i| zs[i] == c * mv[i] + cs[i]) && sub.iter().all(|&i| Some(cs[i]) == link[i]);
                out.push(json!({"ev": "proof", "kind": "cp_g1", "N": N, "m": mc, "linked": sub, "case": "honest", "decoded": true,
                                "verdict": p.verify_knowledge_of_opening(&p1, cp), "builder_eq_proof": cb.to_scalar() == c,
                                "atoms": {"schnorr": view.schnorr_g1(&h1, &g1s, &c)}, "patterns": {"responses_open_to_message_with_given_commitment_scalars": pat}}));
                if do_perturb {
                    for pc in perturbations(&tree, rng, thorough) {
                        let dec = bincode::deserialize::<zkchannels_crypto::proofs::CommitmentProof<G1Projective, N>>(&pc.bytes);
                        let ch = if pc.wrong_challenge { ChallengeBuilder::new().with(&p).with_bytes(b"other").finish() } else { cp };
                        let mut ev = json!({"ev": "proof", "kind": "cp_g1", "N": N, "case": pc.case, "decoded": dec.is_ok()});
                        if let Ok(q) = dec {
                            let v2 = cp_root(&Tree { bytes: pc.bytes.clone(), leaves: tree.leaves.clone() }).unwrap();
                            let (hh, gg) = if pc.other_params { (&oh1, &og1s) } else { (&h1, &g1s) };
                            ev["verdict"] = json!(q.verify_knowledge_of_opening(if pc.other_params { &o1 } else { &p1 }, ch));
                            ev["atoms"] = json!({"schnorr": v2.schnorr_g1(hh, gg, &ch.to_scalar())});
                        }
                        out.push(ev);
                    }
                    // simulated transcript: random responses, T := Commit(z, zb) - c*C
                    let mut b2 = tree.bytes.clone();
                    let mut lhs = G1Projective::identity();
                    let zb = Scalar::random(&mut *rng);
                    b2[tree.get("blinding_factor_response_scalar").unwrap().off..][..32].copy_from_slice(&zb.to_bytes());
                    lhs += G1Projective::from(h1) * zb;
                    for i in 0..N {
                        let z = Scalar::random(&mut *rng);
                        b2[tree.get(&format!("message_response_scalars.{}", i)).unwrap().off..][..32].copy_from_slice(&z.to_bytes());
                        lhs += G1Projective::from(g1s[i]) * z;
                    }
                    let cc = G1Projective::from(indep::g1(&view.c).unwrap());
                    let newt = G1Affine::from(lhs - cc * c).to_compressed();
                    b2[tree.get("scalar_commitment").unwrap().off..][..48].copy_from_slice(&newt);
                    let q: zkchannels_crypto::proofs::CommitmentProof<G1Projective, N> = bincode::deserialize(&b2).unwrap();
                    let v2 = cp_root(&Tree { bytes: b2.clone(), leaves: tree.leaves.clone() }).unwrap();
                    out.push(json!({"ev": "proof", "kind": "cp_g1", "N": N, "case": "simulated", "decoded": true, "verdict": q.verify_knowledge_of_opening(&p1, cp), "atoms": {"schnorr": v2.schnorr_g1(&h1, &g1s, &c)}}));
                    let other = ChallengeBuilder::new().with(&q).with_bytes(b"x").finish();
                    out.push(json!({"ev": "proof", "kind": "cp_g1", "N": N, "case": "simulated_other_challenge", "decoded": true, "verdict": q.verify_knowledge_of_opening(&p1, other), "atoms": {"schnorr": v2.schnorr_g1(&h1, &g1s, &other.to_scalar())}}));
                }
            }
            // ---------------- commitment proof G2
            {
                let b = CommitmentProofBuilder::<G2Projective, N>::generate_proof_commitments(rng, Message::<N>::new(mv), &link, &p2);
                let cs = *b.conjunction_commitment_scalars();
                let cb = ChallengeBuilder::new().with(&b).finish();
                let p = b.generate_proof_response(cb);
                let cp = ChallengeBuilder::new().with(&p).finish();
                let tree = Tree::of(&p);
                let view = cp_root(&tree).unwrap();
                let c = cp.to_scalar();
                let zs = p.conjunction_response_scalars();
                let pat = (0..N).all(|i| zs[i] == c * mv[i] + cs[i]);
                out.push(json!({"ev": "proof", "kind": "cp_g2", "N": N, "m": mc, "linked": sub, "case": "honest", "decoded": true,
                                "verdict": p.verify_knowledge_of_opening(&p2, cp), "builder_eq_proof": cb.to_scalar() == c,
                                "atoms": {"schnorr": view.schnorr_g2(&h2, &g2s, &c)}, "patterns": {"responses_open_to_message_with_given_commitment_scalars": pat}}));
                if do_perturb {
                    for pc in perturbations(&tree, rng, thorough) {
                        let dec = bincode::deserialize::<zkchannels_crypto::proofs::CommitmentProof<G2Projective, N>>(&pc.bytes);
                        let ch = if pc.wrong_challenge { ChallengeBuilder::new().with(&p).with_bytes(b"other").finish() } else { cp };
                        let mut ev = json!({"ev": "proof", "kind": "cp_g2", "N": N, "case": pc.case, "decoded": dec.is_ok()});
                        if let Ok(q) = dec {
                            let v2 = cp_root(&Tree { bytes: pc.bytes.clone(), leaves: tree.leaves.clone() }).unwrap();
                            let (hh, gg) = if pc.other_params { (&oh2, &og2s) } else { (&h2, &g2s) };
                            ev["verdict"] = json!(q.verify_knowledge_of_opening(if pc.other_params { &o2 } else { &p2 }, ch));
                            ev["atoms"] = json!({"schnorr": v2.schnorr_g2(hh, gg, &ch.to_scalar())});
                        }
                        out.push(ev);
                    }
                }
            }
            // ---------------- signature request proof
            {
                let b = SignatureRequestProofBuilder::<N>::generate_proof_commitments(rng, Message::<N>::new(mv), &link, &pk);
                let cs = *b.conjunction_commitment_scalars();
                let cb = ChallengeBuilder::new().with(&b).finish();
                let p = b.generate_proof_response(cb);
                let cp = ChallengeBuilder::new().with(&p).finish();
                let tree = Tree::of(&p);
                let view = Cp::from_tree(&tree, "commitment_proof").unwrap();
                let c = cp.to_scalar();
                let zs = p.conjunction_response_scalars();
                let pat = (0..N).all(|i| zs[i] == c * mv[i] + cs[i]);
                out.push(json!({"ev": "proof", "kind": "srp", "N": N, "m": mc, "linked": sub, "case": "honest", "decoded": true,
                                "verdict": p.verify_knowledge_of_opening(&pk, cp).is_some(), "builder_eq_proof": cb.to_scalar() == c,
                                "atoms": {"schnorr": view.schnorr_g1(&pkv.g1, &pkv.y1s, &c)}, "patterns": {"responses_open_to_message_with_given_commitment_scalars": pat}}));
                if do_perturb {
                    for pc in perturbations(&tree, rng, thorough) {
                        let dec = bincode::deserialize::<zkchannels_crypto::proofs::SignatureRequestProof<N>>(&pc.bytes);
                        let ch = if pc.wrong_challenge { ChallengeBuilder::new().with(&p).with_bytes(b"other").finish() } else { cp };
                        let mut ev = json!({"ev": "proof", "kind": "srp", "N": N, "case": pc.case, "decoded": dec.is_ok()});
                        if let Ok(q) = dec {
                            let v2 = Cp::from_tree(&Tree { bytes: pc.bytes.clone(), leaves: tree.leaves.clone() }, "commitment_proof").unwrap();
                            let kk = if pc.other_params { &opkv } else { &pkv };
                            ev["verdict"] = json!(q.verify_knowledge_of_opening(if pc.other_params { okp.public_key() } else { &pk }, ch).is_some());
                            ev["atoms"] = json!({"schnorr": v2.schnorr_g1(&kk.g1, &kk.y1s, &ch.to_scalar())});
                        }
                        out.push(ev);
                    }
                }
            }
            // ---------------- signature proof
            {
                let sig = Message::<N>::new(mv).sign(rng, &kp);
                let b = SignatureProofBuilder::<N>::generate_proof_commitments(rng, Message::<N>::new(mv), sig, &link, &pk);
                let cs = *b.conjunction_commitment_scalars();
                let cb = ChallengeBuilder::new().with(&b).finish();
                let p = b.generate_proof_response(cb);
                let cp = ChallengeBuilder::new().with(&p).finish();
                let tree = Tree::of(&p);
                let view = Sp::from_tree(&tree, "").or_else(|| sp_root(&tree)).unwrap();
                let c = cp.to_scalar();
                let (wf, sch, pair) = view.relations(&pkv, &c);
                let zs = p.conjunction_response_scalars();
                let pat = (0..N).all(|i| zs[i] == c * mv[i] + cs[i]);
                out.push(json!({"ev": "proof", "kind": "sp", "N": N, "m": mc, "linked": sub, "case": "honest", "decoded": true,
                                "verdict": p.verify_knowledge_of_signature(&pk, cp), "builder_eq_proof": cb.to_scalar() == c,
                                "atoms": {"sigma1_not_identity": wf, "schnorr": sch, "pairing": pair}, "patterns": {"responses_open_to_message_with_given_commitment_scalars": pat}}));
                if do_perturb {
                    for pc in perturbations(&tree, rng, thorough) {
                        let dec = bincode::deserialize::<zkchannels_crypto::proofs::SignatureProof<N>>(&pc.bytes);
                        let ch = if pc.wrong_challenge { ChallengeBuilder::new().with(&p).with_bytes(b"other").finish() } else { cp };
                        let mut ev = json!({"ev": "proof", "kind": "sp", "N": N, "case": pc.case, "decoded": dec.is_ok()});
                        if let Ok(q) = dec {
                            let v2 = sp_root(&Tree { bytes: pc.bytes.clone(), leaves: tree.leaves.clone() }).unwrap();
                            let kk = if pc.other_params { &opkv } else { &pkv };
                            let (a, b_, c_) = v2.relations(kk, &ch.to_scalar());
                            ev["verdict"] = json!(q.verify_knowledge_of_signature(if pc.other_params { okp.public_key() } else { &pk }, ch));
                            ev["atoms"] = json!({"sigma1_not_identity": a, "schnorr": b_, "pairing": c_});
                        }
                        out.push(ev);
                    }
                    // a signature on another message / by another key inside an otherwise honest proof
                    for (case, s2) in [("signature_on_other_message", Message::<N>::new([Scalar::from(99u64); N]).sign(rng, &kp)), ("signature_by_other_key", Message::<N>::new(mv).sign(rng, &okp))] {
                        let b = SignatureProofBuilder::<N>::generate_proof_commitments(rng, Message::<N>::new(mv), s2, &link, &pk);
                        let ch = ChallengeBuilder::new().with(&b).finish();
                        let q = b.generate_proof_response(ch);
                        let v2 = sp_root(&Tree::of(&q)).unwrap();
                        let (a, b_, c_) = v2.relations(&pkv, &ch.to_scalar());
                        out.push(json!({"ev": "proof", "kind": "sp", "N": N, "case": case, "decoded": true, "verdict": q.verify_knowledge_of_signature(&pk, ch),
                                        "atoms": {"sigma1_not_identity": a, "schnorr": b_, "pairing": c_}}));
                    }
                    // the commitment equal to -X~ (message zero, blinding factor -x from the secret key, scripted as the builder's
                    // first draw) around an unrelated signature: X~ * C is the identity, the pairing relation is false
                    {
                        let skx = indep::sc(Tree::of(&kp).bytes_at("sk.x").expect("sk.x")).unwrap();
                        let mut srng = Scripted::new(vec![Draw::Scalar((-skx).to_bytes())], 7);
                        let any_sig = Message::<N>::new([Scalar::from(5u64); N]).sign(rng, &okp);
                        let b = SignatureProofBuilder::<N>::generate_proof_commitments(&mut srng, Message::<N>::new([Scalar::zero(); N]), any_sig, &[None; N], &pk);
                        let ch = ChallengeBuilder::new().with(&b).finish();
                        let q = b.generate_proof_response(ch);
                        let tq = Tree::of(&q);
                        let v2 = sp_root(&tq).unwrap();
                        let (a, b_, c_) = v2.relations(&pkv, &ch.to_scalar());
                        let cancels = indep::g2(&v2.cp.c).map(|c| G2Projective::from(c) + G2Projective::from(pkv.x2) == G2Projective::identity()).unwrap_or(false);
                        out.push(json!({"ev": "proof", "kind": "sp", "N": N, "case": "commitment_cancels_x2", "decoded": true, "verdict": q.verify_knowledge_of_signature(&pk, ch),
                                        "atoms": {"sigma1_not_identity": a, "schnorr": b_, "pairing": c_}, "commitment_is_minus_x2": cancels}));
                    }
                    // two errors that would cancel in a FOLDED check: the signature is on m + d*e_0, the commitment on m and
                    // the response of slot 0 is moved by c*d or by d - the Schnorr relation and the pairing relation are each false
                    for scaled in [true, false] {
                        let d = Scalar::from(3u64);
                        let mut m2 = mv;
                        m2[0] += d;
                        let s2 = Message::<N>::new(m2).sign(rng, &kp);
                        let b = SignatureProofBuilder::<N>::generate_proof_commitments(rng, Message::<N>::new(mv), s2, &link, &pk);
                        let ch = ChallengeBuilder::new().with(&b).finish();
                        let q = b.generate_proof_response(ch);
                        let tq = Tree::of(&q);
                        let mut bq = tq.bytes.clone();
                        let zl = tq.get("commitment_proof.message_response_scalars.0").unwrap().clone();
                        // scaled: the response of the signed message (Schnorr error c*d*Y~_0); unscaled: Schnorr error d*Y~_0,
                        // exactly the difference between the commitment and the signed message
                        let z0 = indep::sc(&bq[zl.off..zl.off + 32]).unwrap() + if scaled { ch.to_scalar() * d } else { d };
                        bq[zl.off..zl.off + 32].copy_from_slice(&z0.to_bytes());
                        let q2: zkchannels_crypto::proofs::SignatureProof<N> = bincode::deserialize(&bq).unwrap();
                        let v2 = sp_root(&Tree { bytes: bq, leaves: tq.leaves.clone() }).unwrap();
                        let (a, b_, c_) = v2.relations(&pkv, &ch.to_scalar());
                        out.push(json!({"ev": "proof", "kind": "sp", "N": N, "case": "signature_on_shifted_message_response_shifted", "decoded": true,
                                        "verdict": q2.verify_knowledge_of_signature(&pk, ch), "atoms": {"sigma1_not_identity": a, "schnorr": b_, "pairing": c_}}));
                    }
                    // the all-identity blinded signature through chosen randomness: the draw after the blinding
                    // factor, its commitment scalar and one commitment scalar per unlinked slot is zero
                    let free = link.iter().filter(|x| x.is_none()).count();
                    let mut script = vec![Draw::Generic; 2 + free];
                    script.push(Draw::Zero);
                    let mut srng = Scripted::new(script, 3);
                    let any_sig = Message::<N>::new([Scalar::from(5u64); N]).sign(rng, &okp);
                    let b = SignatureProofBuilder::<N>::generate_proof_commitments(&mut srng, Message::<N>::new(mv), any_sig, &link, &pk);
                    let ch = ChallengeBuilder::new().with(&b).finish();
                    let q = b.generate_proof_response(ch);
                    let v2 = sp_root(&Tree::of(&q)).unwrap();
                    let (a, b_, c_) = v2.relations(&pkv, &ch.to_scalar());
                    out.push(json!({"ev": "proof", "kind": "sp", "N": N, "case": "identity_signature", "decoded": true, "verdict": q.verify_knowledge_of_signature(&pk, ch),
                                    "atoms": {"sigma1_not_identity": a, "schnorr": b_, "pairing": c_}, "is_identity": !a}));
                }
            }
        }
    }
}

/// Verification HISTORIES: one honest proof of each kind verified alternately under the genuine parameters and under
/// parameters with ONE field replaced (g1 / Y_i / g2 / X~ / Y~_i of a key, h / g_i of a Pedersen parameter set) -
/// every verdict must be the conjunction of the relations evaluated independently under the parameters actually passed
/// (a verifier is a function of its arguments, whatever was verified before).
fn verification_histories<const N: usize>(rng: &mut StdRng, out: &mut Vec<Value>) {
    let kp = KeyPair::<N>::new(rng);
    let pk = kp.public_key().clone();
    let pkt = Tree::of(&pk);
    let pkv = Pk::from_tree(&pkt, "").unwrap();
    let shift = |b: &[u8]| -> Vec<u8> {
        if b.len() == 48 { G1Affine::from(G1Projective::from(indep::g1(b).unwrap()) + G1Projective::generator()).to_compressed().to_vec() }
        else { G2Affine::from(G2Projective::from(indep::g2(b).unwrap()) + G2Projective::generator()).to_compressed().to_vec() }
    };
    let mut kvars: Vec<(String, PublicKey<N>, Pk)> = vec![];
    for l in pkt.leaves.clone() {
        if l.kind != "bytes" { continue; }
        let idx: Option<usize> = l.path.rsplit('.').next().and_then(|x| x.parse().ok());
        if let Some(i) = idx { if i >= 2 && i + 1 != N { continue; } }
        let mut b = pkt.bytes.clone();
        let nb = shift(&pkt.bytes[l.off..l.off + l.len]);
        b[l.off..l.off + l.len].copy_from_slice(&nb);
        if let Ok(v) = bincode::deserialize::<PublicKey<N>>(&b) {
            let vv = Pk::from_tree(&Tree { bytes: b, leaves: pkt.leaves.clone() }, "").unwrap();
            kvars.push((l.path.clone(), v, vv));
        }
    }
    let mut mv = [Scalar::zero(); N];
    for i in 0..N { mv[i] = Scalar::random(&mut *rng) ; }
    // signature proof and signature request proof under key variants
    {
        let sig = Message::<N>::new(mv).sign(rng, &kp);
        let b = SignatureProofBuilder::<N>::generate_proof_commitments(rng, Message::<N>::new(mv), sig, &[None; N], &pk);
        let ch = ChallengeBuilder::new().with(&b).finish();
        let p = b.generate_proof_response(ch);
        let view = sp_root(&Tree::of(&p)).unwrap();
        let c = ch.to_scalar();
        let ev = |name: &str, case: &str, k: &PublicKey<N>, kv: &Pk, out: &mut Vec<Value>| {
            let (a, b_, c_) = view.relations(kv, &c);
            out.push(json!({"ev": "proof", "kind": "sp", "N": N, "case": case, "history": name, "decoded": true, "verdict": p.verify_knowledge_of_signature(k, ch),
                            "atoms": {"sigma1_not_identity": a, "schnorr": b_, "pairing": c_}}));
        };
        ev("genuine", "history_genuine", &pk, &pkv, out);
        for (f, k, kv) in kvars.iter() {
            ev(f, "history_variant", k, kv, out);
            ev(f, "history_genuine", &pk, &pkv, out);
        }
        let b = SignatureRequestProofBuilder::<N>::generate_proof_commitments(rng, Message::<N>::new(mv), &[None; N], &pk);
        let ch = ChallengeBuilder::new().with(&b).finish();
        let p = b.generate_proof_response(ch);
        let view = Cp::from_tree(&Tree::of(&p), "commitment_proof").unwrap();
        let c = ch.to_scalar();
        let ev2 = |name: &str, case: &str, k: &PublicKey<N>, kv: &Pk, out: &mut Vec<Value>| {
            out.push(json!({"ev": "proof", "kind": "srp", "N": N, "case": case, "history": name, "decoded": true, "verdict": p.verify_knowledge_of_opening(k, ch).is_some(),
                            "atoms": {"schnorr": view.schnorr_g1(&kv.g1, &kv.y1s, &c)}}));
        };
        ev2("genuine", "history_genuine", &pk, &pkv, out);
        for (f, k, kv) in kvars.iter() {
            ev2(f, "history_variant", k, kv, out);
            ev2(f, "history_genuine", &pk, &pkv, out);
        }
    }
    // commitment proofs under Pedersen parameter variants (G1)
    {
        let p1 = PedersenParameters::<G1Projective, N>::new(rng);
        let t1 = Tree::of(&p1);
        let rd = |t: &Tree, bytes: &[u8]| -> (G1Affine, Vec<G1Affine>) {
            let tt = Tree { bytes: bytes.to_vec(), leaves: t.leaves.clone() };
            (indep::g1(tt.bytes_at("h").unwrap()).unwrap(), (0..N).map(|i| indep::g1(tt.bytes_at(&format!("gs.{}", i)).unwrap()).unwrap()).collect())
        };
        let (h1, g1s) = rd(&t1, &t1.bytes);
        let b = CommitmentProofBuilder::<G1Projective, N>::generate_proof_commitments(rng, Message::<N>::new(mv), &[None; N], &p1);
        let ch = ChallengeBuilder::new().with(&b).with(&p1).finish();
        let p = b.generate_proof_response(ch);
        let view = cp_root(&Tree::of(&p)).unwrap();
        let c = ch.to_scalar();
        out.push(json!({"ev": "proof", "kind": "cp_g1", "N": N, "case": "history_genuine", "history": "genuine", "decoded": true, "verdict": p.verify_knowledge_of_opening(&p1, ch), "atoms": {"schnorr": view.schnorr_g1(&h1, &g1s, &c)}}));
        for l in t1.leaves.clone() {
            if l.kind != "bytes" { continue; }
            let idx: Option<usize> = l.path.rsplit('.').next().and_then(|x| x.parse().ok());
            if let Some(i) = idx { if i >= 2 && i + 1 != N { continue; } }
            let mut bb = t1.bytes.clone();
            let nb = shift(&t1.bytes[l.off..l.off + l.len]);
            bb[l.off..l.off + l.len].copy_from_slice(&nb);
            if let Ok(pv) = bincode::deserialize::<PedersenParameters<G1Projective, N>>(&bb) {
                let (hv, gv) = rd(&t1, &bb);
                out.push(json!({"ev": "proof", "kind": "cp_g1", "N": N, "case": "history_variant", "history": l.path, "decoded": true, "verdict": p.verify_knowledge_of_opening(&pv, ch), "atoms": {"schnorr": view.schnorr_g1(&hv, &gv, &c)}}));
                out.push(json!({"ev": "proof", "kind": "cp_g1", "N": N, "case": "history_genuine", "history": l.path, "decoded": true, "verdict": p.verify_knowledge_of_opening(&p1, ch), "atoms": {"schnorr": view.schnorr_g1(&h1, &g1s, &c)}}));
            }
        }
    }
}

/// honest proofs whose commitment is the identity element: message all zero and the blinding factor (the builder's
/// first draw) zero.  They satisfy the Schnorr relation and must verify.
fn identity_commitment_proofs<const N: usize>(rng: &mut StdRng, out: &mut Vec<Value>) {
    let kp = KeyPair::<N>::new(rng);
    let pk = kp.public_key().clone();
    let pkv = Pk::from_tree(&Tree::of(&pk), "").unwrap();
    let p1 = PedersenParameters::<G1Projective, N>::new(rng);
    let p2 = PedersenParameters::<G2Projective, N>::new(rng);
    let t1 = Tree::of(&p1);
    let t2 = Tree::of(&p2);
    let (h1, g1s): (G1Affine, Vec<G1Affine>) = (indep::g1(t1.bytes_at("h").unwrap()).unwrap(), (0..N).map(|i| indep::g1(t1.bytes_at(&format!("gs.{}", i)).unwrap()).unwrap()).collect());
    let (h2, g2s): (G2Affine, Vec<G2Affine>) = (indep::g2(t2.bytes_at("h").unwrap()).unwrap(), (0..N).map(|i| indep::g2(t2.bytes_at(&format!("gs.{}", i)).unwrap()).unwrap()).collect());
    let zero = Message::<N>::new([Scalar::zero(); N]);
    let mc = vec!["zero"; N];
    let script = || { let mut s = Scripted::new(vec![Draw::Zero], 11); s.scalar_only = true; s };
    {
        let b = CommitmentProofBuilder::<G1Projective, N>::generate_proof_commitments(&mut script(), Message::<N>::new([Scalar::zero(); N]), &[None; N], &p1);
        let bf0 = b.message_blinding_factor().as_scalar() == Scalar::zero();
        let cb = ChallengeBuilder::new().with(&b).with(&p1).finish();
        let p = b.generate_proof_response(cb);
        let cp = ChallengeBuilder::new().with(&p).with(&p1).finish();
        let view = cp_root(&Tree::of(&p)).unwrap();
        out.push(json!({"ev": "proof", "kind": "cp_g1", "N": N, "m": mc, "linked": [], "case": "honest", "identity_commitment": bf0, "decoded": true,
                        "verdict": p.verify_knowledge_of_opening(&p1, cp), "builder_eq_proof": cb.to_scalar() == cp.to_scalar(),
                        "atoms": {"schnorr": view.schnorr_g1(&h1, &g1s, &cp.to_scalar())}, "patterns": {"blinding_factor_drawn_as_zero": bf0}}));
    }
    {
        let b = CommitmentProofBuilder::<G2Projective, N>::generate_proof_commitments(&mut script(), Message::<N>::new([Scalar::zero(); N]), &[None; N], &p2);
        let bf0 = b.message_blinding_factor().as_scalar() == Scalar::zero();
        let cb = ChallengeBuilder::new().with(&b).finish();
        let p = b.generate_proof_response(cb);
        let cp = ChallengeBuilder::new().with(&p).finish();
        let view = cp_root(&Tree::of(&p)).unwrap();
        out.push(json!({"ev": "proof", "kind": "cp_g2", "N": N, "m": mc, "linked": [], "case": "honest", "identity_commitment": bf0, "decoded": true,
                        "verdict": p.verify_knowledge_of_opening(&p2, cp), "builder_eq_proof": cb.to_scalar() == cp.to_scalar(),
                        "atoms": {"schnorr": view.schnorr_g2(&h2, &g2s, &cp.to_scalar())}, "patterns": {"blinding_factor_drawn_as_zero": bf0}}));
    }
    {
        let b = SignatureRequestProofBuilder::<N>::generate_proof_commitments(&mut script(), Message::<N>::new([Scalar::zero(); N]), &[None; N], &pk);
        let bf0 = b.message_blinding_factor().as_scalar() == Scalar::zero();
        let cb = ChallengeBuilder::new().with(&b).finish();
        let p = b.generate_proof_response(cb);
        let cp = ChallengeBuilder::new().with(&p).finish();
        let view = Cp::from_tree(&Tree::of(&p), "commitment_proof").unwrap();
        let vb = p.verify_knowledge_of_opening(&pk, cp);
        let vb_some = vb.is_some();
        // and the blind signature on it unblinds (factor 0) to a valid signature on the zero message
        let signs = vb.map(|v| v.blind_sign(&kp, rng).unblind(bf_of(&Scalar::zero())).verify(&pk, &zero)).unwrap_or(false);
        out.push(json!({"ev": "proof", "kind": "srp", "N": N, "m": mc, "linked": [], "case": "honest", "identity_commitment": bf0, "decoded": true,
                        "verdict": vb_some, "builder_eq_proof": cb.to_scalar() == cp.to_scalar(),
                        "atoms": {"schnorr": view.schnorr_g1(&pkv.g1, &pkv.y1s, &cp.to_scalar())},
                        "patterns": {"blinding_factor_drawn_as_zero": bf0, "blind_signature_on_it_verifies": signs}}));
    }
}

fn cp_root(t: &Tree) -> Option<Cp> {
    let mut z = vec![];
    let mut i = 0;
    while let Some(b) = t.bytes_at(&format!("message_response_scalars.{}", i)) { z.push(indep::sc(b)?); i += 1; }
    Some(Cp { c: t.bytes_at("commitment")?.to_vec(), t: t.bytes_at("scalar_commitment")?.to_vec(), zbf: indep::sc(t.bytes_at("blinding_factor_response_scalar")?)?, z })
}
fn sp_root(t: &Tree) -> Option<Sp> {
    Some(Sp { s1: t.bytes_at("blinded_signature.sigma1")?.to_vec(), s2: t.bytes_at("blinded_signature.sigma2")?.to_vec(), cp: Cp::from_tree(t, "commitment_proof")? })
}

/// the documented constraint patterns on response scalars (C10)
fn patterns(rng: &mut StdRng, out: &mut Vec<Value>, rp: &RangeConstraintParameters, thorough: bool) {
    let kp = KeyPair::<3>::new(rng);
    let pk = kp.public_key().clone();
    let p1 = PedersenParameters::<G1Projective, 3>::new(rng);
    let p2 = PedersenParameters::<G2Projective, 3>::new(rng);
    let publics = ["zero", "one", "minus_one", "random"];
    for mc in ["random", "zero", "one", "minus_one"] {
        for pc in publics {
            let m1 = class_scalar(mc, rng);
            let pubv = class_scalar(pc, rng);
            for host in ["cp_g1", "cp_g2", "srp", "sp"] {
                // slots: [m1, m1 + pub, m1 * pub];  commitment scalars [cs, cs, cs * pub]
                let cs = Scalar::random(&mut *rng);
                let mv = [m1, m1 + pubv, m1 * pubv];
                let link = [Some(cs), Some(cs), Some(cs * pubv)];
                let (zs, c, ok): ([Scalar; 3], Scalar, bool) = match host {
                    "cp_g1" => { let b = CommitmentProofBuilder::<G1Projective, 3>::generate_proof_commitments(rng, Message::new(mv), &link, &p1); let ch = ChallengeBuilder::new().with(&b).finish(); let p = b.generate_proof_response(ch); (*p.conjunction_response_scalars(), ch.to_scalar(), p.verify_knowledge_of_opening(&p1, ch)) }
                    "cp_g2" => { let b = CommitmentProofBuilder::<G2Projective, 3>::generate_proof_commitments(rng, Message::new(mv), &link, &p2); let ch = ChallengeBuilder::new().with(&b).finish(); let p = b.generate_proof_response(ch); (*p.conjunction_response_scalars(), ch.to_scalar(), p.verify_knowledge_of_opening(&p2, ch)) }
                    "srp" => { let b = SignatureRequestProofBuilder::<3>::generate_proof_commitments(rng, Message::new(mv), &link, &pk); let ch = ChallengeBuilder::new().with(&b).finish(); let p = b.generate_proof_response(ch); (*p.conjunction_response_scalars(), ch.to_scalar(), p.verify_knowledge_of_opening(&pk, ch).is_some()) }
                    _ => { let sig = Message::new(mv).sign(rng, &kp); let b = SignatureProofBuilder::<3>::generate_proof_commitments(rng, Message::new(mv), sig, &link, &pk); let ch = ChallengeBuilder::new().with(&b).finish(); let p = b.generate_proof_response(ch); (*p.conjunction_response_scalars(), ch.to_scalar(), p.verify_knowledge_of_signature(&pk, ch)) }
                };
                out.push(json!({"ev": "pattern", "host": host, "m": mc, "public": pc, "verifies": ok,
                                "patterns": {"public_addition": zs[1] == zs[0] + c * pubv, "public_product": zs[2] == zs[0] * pubv, "partial_opening": zs[0] == c * m1 + cs}}));
                // equality within a proof, secret sum (also with commitment scalars cs and -cs), equality across proofs
                for neg in [false, true] {
                    let cs1 = Scalar::random(&mut *rng);
                    let cs2 = if neg { -cs1 } else { Scalar::random(&mut *rng) };
                    let m2 = class_scalar(pc, rng);
                    let mv2 = [m1, m2, m1 + m2];
                    let link2 = [Some(cs1), Some(cs2), Some(cs1 + cs2)];
                    let b = SignatureRequestProofBuilder::<3>::generate_proof_commitments(rng, Message::new(mv2), &link2, &pk);
                    // a second proof (other group) sharing slot 0
                    let b2 = CommitmentProofBuilder::<G2Projective, 3>::generate_proof_commitments(rng, Message::new([m1, m1, m2]), &[Some(cs1), Some(cs1), None], &p2);
                    let ch = ChallengeBuilder::new().with(&b).with(&b2).finish();
                    let p = b.generate_proof_response(ch);
                    let q = b2.generate_proof_response(ch);
                    let z = p.conjunction_response_scalars();
                    let w = q.conjunction_response_scalars();
                    out.push(json!({"ev": "pattern", "host": "srp+cp_g2", "m": mc, "public": pc, "cs_sum_zero": neg,
                                    "verifies": p.verify_knowledge_of_opening(&pk, ch).is_some() && q.verify_knowledge_of_opening(&p2, ch),
                                    "patterns": {"secret_sum": z[2] == z[0] + z[1], "equality_within": w[0] == w[1], "equality_across": z[0] == w[0]}}));
                }
            }
        }
    }
    // range link: the value's slot of a host proof uses the range builder's commitment scalar
    let mut vals: Vec<i64> = vec![0, 1, 127, 128, 129, i64::MAX, i64::MAX - 1, 0x0123_4567_89ab_cdef, 0x7edc_ba98_7654_3210];
    for k in 1..9u32 { let p = 128i64.pow(k); vals.extend([p - 1, p, p + 1]); }
    if thorough { for _ in 0..40 { use rand::Rng; vals.push(rng.gen_range(0..i64::MAX)); } }
    for (i, v) in vals.iter().enumerate() {
        let rb = RangeConstraintBuilder::generate_constraint_commitments(*v, rp, rng).unwrap();
        let csr = rb.commitment_scalar();
        let mv = [Scalar::from(*v as u64), Scalar::random(&mut *rng), Scalar::zero()];
        let host = i % 3;
        let (z0, ch, ok) = match host {
            0 => { let b = CommitmentProofBuilder::<G1Projective, 3>::generate_proof_commitments(rng, Message::new(mv), &[Some(csr), None, None], &p1); let ch = ChallengeBuilder::new().with(&b).with(&rb).finish(); let p = b.generate_proof_response(ch); (p.conjunction_response_scalars()[0], ch, p.verify_knowledge_of_opening(&p1, ch)) }
            1 => { let b = SignatureRequestProofBuilder::<3>::generate_proof_commitments(rng, Message::new(mv), &[Some(csr), None, None], &pk); let ch = ChallengeBuilder::new().with(&b).with(&rb).finish(); let p = b.generate_proof_response(ch); (p.conjunction_response_scalars()[0], ch, p.verify_knowledge_of_opening(&pk, ch).is_some()) }
            _ => { let sig = Message::new(mv).sign(rng, &kp); let b = SignatureProofBuilder::<3>::generate_proof_commitments(rng, Message::new(mv), sig, &[Some(csr), None, None], &pk); let ch = ChallengeBuilder::new().with(&b).with(&rb).finish(); let p = b.generate_proof_response(ch); (p.conjunction_response_scalars()[0], ch, p.verify_knowledge_of_signature(&pk, ch)) }
        };
        let rc = rb.generate_constraint_response(ch);
        let hostname = ["cp_g1", "srp", "sp"][host];
        out.push(json!({"ev": "pattern", "host": hostname, "m": "value", "public": v.to_string(), "verifies": ok,
                        "patterns": {"range_link": rc.verify_range_constraint(rp, ch, z0)}}));
    }
}

pub fn schnorr(seed: u64, thorough: bool) -> Vec<Value> {
    macro_rules! spawn_n {
        ($n:literal) => {
            std::thread::spawn(move || {
                let mut rng = seeded(seed, 630 + $n);
                let mut out = vec![];
                schnorr_n::<$n>(&mut rng, thorough, &mut out);
                identity_commitment_proofs::<$n>(&mut rng, &mut out);
                verification_histories::<$n>(&mut rng, &mut out);
                out
            })
        };
    }
    let hp = std::thread::spawn(move || {
        let mut rng = seeded(seed, 639);
        let rp = RangeConstraintParameters::new(&mut rng);
        let mut out = vec![];
        patterns(&mut rng, &mut out, &rp, thorough);
        out
    });
    let mut hs = vec![spawn_n!(1), spawn_n!(2), spawn_n!(3), spawn_n!(5), spawn_n!(8), spawn_n!(13)];
    if thorough {
        hs.push(spawn_n!(17));
    } else {
        // quick tier: one honest proof of each kind and its verification history at a tuple length beyond 16
        hs.push(std::thread::spawn(move || {
            let mut rng = seeded(seed, 630 + 17);
            let mut out = vec![];
            verification_histories::<17>(&mut rng, &mut out);
            out
        }));
    }
    let mut out = vec![];
    for h in hs { out.extend(h.join().expect("schnorr worker")); }
    out.extend(hp.join().expect("pattern worker"));
    out
}


// ====================================================================== Range constraints (C13)

fn published_sig(t: &Tree, i: usize) -> Signature {
    let (lo, hi) = t.span(&format!("digit_signatures.{}", i)).unwrap();
    bincode::deserialize(&t.bytes[lo..hi]).unwrap()
}

/// assemble a range constraint from arbitrary (claimed digit, signature) pairs linked to a host proof
fn assemble_range(rp: &RangeConstraintParameters, rpkv: &Pk, rpk: &PublicKey<1>, claims: &[Scalar; 9], sigs: &[Signature; 9], link: bool, rng: &mut StdRng) -> Value {
    assemble_range2(rp, rpkv, rpk, claims, sigs, link, rng, None)
}

/// `overwrite`: 96 bytes written over the blinded signature of EVERY digit proof (e.g. a small-order sigma1 with
/// sigma2 = identity: no published signature is needed at all if such an element is accepted)
fn assemble_range2(rp: &RangeConstraintParameters, rpkv: &Pk, rpk: &PublicKey<1>, claims: &[Scalar; 9], sigs: &[Signature; 9], link: bool, rng: &mut StdRng, overwrite: Option<&[u8]>) -> Value {
    let hostp = PedersenParameters::<G1Projective, 1>::new(rng);
    let mut builders = vec![];
    let mut total_cs = Scalar::zero();
    let mut value = Scalar::zero();
    let mut pow = Scalar::one();
    for j in 0..9 {
        let b = SignatureProofBuilder::<1>::generate_proof_commitments(rng, Message::<1>::new([claims[j]]), sigs[j], &[None], rpk);
        total_cs += pow * b.conjunction_commitment_scalars()[0];
        value += pow * claims[j];
        pow *= Scalar::from(128u64);
        builders.push(b);
    }
    let host = CommitmentProofBuilder::<G1Projective, 1>::generate_proof_commitments(rng, Message::<1>::new([value]), &[if link { Some(total_cs) } else { None }], &hostp);
    let mut cb = ChallengeBuilder::new().with(&host);
    for b in &builders { cb = cb.with(b); }
    let ch = cb.finish();
    let hp = host.generate_proof_response(ch);
    let mut bytes = vec![];
    let mut digits_ok = true;
    let mut sum = Scalar::zero();
    let mut pow = Scalar::one();
    for b in builders {
        let p = b.generate_proof_response(ch);
        let mut t = Tree::of(&p);
        if let Some(o) = overwrite {
            let (lo, hi) = t.span("blinded_signature").unwrap();
            t.bytes[lo..hi].copy_from_slice(o);
        }
        let v = sp_root(&t).unwrap();
        let (a, b_, c_) = v.relations(rpkv, &ch.to_scalar());
        digits_ok = digits_ok && a && b_ && c_;
        sum += pow * v.cp.z[0];
        pow *= Scalar::from(128u64);
        bytes.extend(t.bytes);
    }
    let z0 = hp.conjunction_response_scalars()[0];
    let rc: Result<zkchannels_crypto::proofs::RangeConstraint, _> = bincode::deserialize(&bytes);
    let in_range = { let b = value.to_bytes(); b[8..].iter().all(|&x| x == 0) && b[7] < 0x80 };
    match rc {
        Ok(rc) => json!({"decoded": true, "verdict": rc.verify_range_constraint(rp, ch, z0), "atoms": {"all_digit_proofs": digits_ok, "weighted_sum_equals_linked_response": sum == z0}, "linked_value_in_range": in_range}),
        Err(_) => json!({"decoded": false, "verdict": false, "atoms": {"all_digit_proofs": digits_ok, "weighted_sum_equals_linked_response": sum == z0}, "linked_value_in_range": in_range}),
    }
}

pub fn range(seed: u64, thorough: bool) -> Vec<Value> {
    let mut rng = seeded(seed, 64);
    let mut out = vec![];
    let rp = RangeConstraintParameters::new(&mut rng);
    let rpk = rp.public_key().clone();
    let rt = Tree::of(&rp);
    let rpkv = Pk::from_tree(&rt, "public_key").unwrap();
    let other_rp = RangeConstraintParameters::new(&mut rng);
    // ---- prover: refuses exactly the negative inputs
    let mut vals: Vec<i64> = vec![i64::MIN, i64::MIN + 1, -(1i64 << 62), -129, -128, -127, -2, -1, 0, 1, 2, 127, 128, 129, 1i64 << 62, i64::MAX - 1, i64::MAX,
                                  0x0123_4567_89ab_cdef, 0x7edc_ba98_7654_3210];
    for k in 1..9u32 { let p = 128i64.pow(k); vals.extend([p - 1, p, p + 1, -p]); }
    { use rand::Rng; for _ in 0..(if thorough { 200 } else { 12 }) { vals.push(rng.gen::<i64>()); } }
    let hostp = PedersenParameters::<G1Projective, 2>::new(&mut rng);
    for (i, v) in vals.iter().enumerate() {
        let r = catch_unwind(AssertUnwindSafe(|| RangeConstraintBuilder::generate_constraint_commitments(*v, &rp, &mut seeded(seed + i as u64, 7))));
        let mut ev = json!({"ev": "rangeprover", "value": v.to_string(), "negative": *v < 0});
        match r {
            Ok(Ok(rb)) => {
                ev["out"] = json!("ok");
                // honest use: link slot 1 of a host proof; verify; mismatches of link, parameters and challenge
                let cs = rb.commitment_scalar();
                let hb = CommitmentProofBuilder::<G1Projective, 2>::generate_proof_commitments(&mut rng, Message::new([Scalar::from(77u64), Scalar::from(*v as u64)]), &[None, Some(cs)], &hostp);
                let ch = ChallengeBuilder::new().with(&hb).with(&rb).finish();
                let hp = hb.generate_proof_response(ch);
                let rc = rb.generate_constraint_response(ch);
                let z = hp.conjunction_response_scalars();
                let other_ch = ChallengeBuilder::new().with(&hp).with_bytes(b"z").finish();
                ev["honest"] = json!({"verifies": rc.verify_range_constraint(&rp, ch, z[1]),
                                      "wrong_slot": rc.verify_range_constraint(&rp, ch, z[0]),
                                      "other_params": rc.verify_range_constraint(&other_rp, ch, z[1]),
                                      "other_challenge": rc.verify_range_constraint(&rp, other_ch, z[1]),
                                      "shifted_response": rc.verify_range_constraint(&rp, ch, z[1] + Scalar::one())});
                // not linked at all
                let rb2 = RangeConstraintBuilder::generate_constraint_commitments(*v, &rp, &mut rng).unwrap();
                let hb2 = CommitmentProofBuilder::<G1Projective, 2>::generate_proof_commitments(&mut rng, Message::new([Scalar::from(77u64), Scalar::from(*v as u64)]), &[None, None], &hostp);
                let ch2 = ChallengeBuilder::new().with(&hb2).with(&rb2).finish();
                let hp2 = hb2.generate_proof_response(ch2);
                ev["honest"]["unlinked"] = json!(rb2.generate_constraint_response(ch2).verify_range_constraint(&rp, ch2, hp2.conjunction_response_scalars()[1]));
            }
            Ok(Err(_)) => ev["out"] = json!("err"),
            Err(e) => ev["out"] = json!(format!("panic:{}", panic_message(e))),
        }
        out.push(ev);
    }
    // ---- attacker-assembled constraints from the published digit signatures
    let sig = |i: usize| published_sig(&rt, i);
    let sc = |v: u64| Scalar::from(v);
    let all = |d: u64| -> ([Scalar; 9], [Signature; 9]) { ([sc(d); 9], [sig(d as usize); 9]) };
    let mut cases: Vec<(String, [Scalar; 9], [Signature; 9], bool)> = vec![];
    let (c, s_) = all(127); cases.push(("all digits maximal (2^63-1)".into(), c, s_, true));
    let (c, s_) = all(0); cases.push(("all digits zero".into(), c, s_, true));
    let digs = [5u64, 0, 127, 64, 1, 99, 3, 126, 17];
    let c2: Vec<Scalar> = digs.iter().map(|&d| sc(d)).collect();
    let s2: Vec<Signature> = digs.iter().map(|&d| sig(d as usize)).collect();
    let mut ca = [Scalar::zero(); 9]; ca.copy_from_slice(&c2);
    let mut sa = [sig(0); 9]; sa.copy_from_slice(&s2);
    cases.push(("digits of an arbitrary value".into(), ca, sa, true));
    { let mut cp = ca; let mut sp = sa; cp.swap(0, 8); sp.swap(0, 8); cases.push(("digits permuted consistently".into(), cp, sp, true)); }
    { let mut sp = sa; sp.swap(0, 2); cases.push(("signatures of two digits swapped".into(), ca, sp, true)); }
    for j in [0usize, 4, 8] {
        let (mut c, s_) = all(127); c[j] = sc(128); cases.push((format!("digit {} claims 128 with the signature on 127", j), c, s_, true));
        let (mut c, s_) = all(0); c[j] = -Scalar::one(); cases.push((format!("digit {} claims -1 with the signature on 0", j), c, s_, true));
        let (mut c, s_) = all(3); c[j] = sc(5000); cases.push((format!("digit {} claims 5000 with the signature on 3", j), c, s_, true));
        let (c, mut s_) = all(9); s_[j] = sig(10); cases.push((format!("digit {} claims 9 with the signature on 10", j), c, s_, true));
    }
    // a digit proof under the attacker's own key
    {
        let akp = KeyPair::<1>::new(&mut rng);
        let (mut c, mut s_) = all(1); c[3] = sc(300); s_[3] = Message::<1>::new([sc(300)]).sign(&mut rng, &akp);
        cases.push(("digit 3 claims 300 with a signature under the attacker's key".into(), c, s_, true));
        let (c, mut s_) = all(1); s_[3] = Message::<1>::new([sc(1)]).sign(&mut rng, &akp);
        cases.push(("digit 3 claims 1 with a signature under the attacker's key".into(), c, s_, true));
        let (c, mut s_) = all(2); s_[0] = published_sig(&Tree::of(&other_rp), 2);
        cases.push(("digit 0 uses the digit signature of another parameter set".into(), c, s_, true));
    }
    // linear combination of two published signatures (works iff they share sigma1, i.e. the signer reused its base)
    let mut sigma1_distinct = true;
    {
        let mut seen = std::collections::HashSet::new();
        for i in 0..128 { if !seen.insert(sig(i).sigma1().to_compressed().to_vec()) { sigma1_distinct = false; } }
        let (sa_, sb_) = (sig(3), sig(7));
        let hy = (G1Projective::from(sb_.sigma2()) - G1Projective::from(sa_.sigma2())) * Option::<Scalar>::from(sc(4).invert()).unwrap();
        let forged2 = G1Projective::from(sa_.sigma2()) + hy * (sc(128) - sc(3));
        let mut fb = sa_.sigma1().to_compressed().to_vec();
        fb.extend_from_slice(&G1Affine::from(forged2).to_compressed());
        if let Ok(fs) = bincode::deserialize::<Signature>(&fb) {
            let (mut c, mut s_) = all(0); c[8] = sc(128); s_[8] = fs;
            cases.push(("top digit claims 128 with a linear combination of two published signatures".into(), c, s_, true));
        }
    }
    { let (c, s_) = all(127); cases.push(("all digits maximal, not linked to the host".into(), c, s_, false)); }
    for (name, c, s_, link) in cases {
        let honest = name.starts_with("all digits") && link || name.starts_with("digits of") || name.starts_with("digits permuted");
        let mut ev = assemble_range(&rp, &rpkv, &rpk, &c, &s_, link, &mut rng);
        ev["ev"] = json!("rangeattack");
        ev["case"] = json!(name);
        ev["well_formed"] = json!(honest);
        out.push(ev);
    }
    {
        // value 2^63 = 128 * 128^8 with NO digit signature: sigma1 = the order-3 curve point outside G1, sigma2 = identity
        let mut o = vec![0u8; 96];
        o[0] = 0x80;
        o[48] = 0xc0;
        let (mut c, s_) = all(0);
        c[8] = sc(128);
        let mut ev = assemble_range2(&rp, &rpkv, &rpk, &c, &s_, true, &mut rng, Some(&o));
        ev["ev"] = json!("rangeattack");
        ev["case"] = json!("value 2^63, every digit proof around a small-order sigma1 outside G1");
        ev["well_formed"] = json!(false);
        out.push(ev);
    }
    {
        // the published alphabet is exactly the digits 0 .. u-1 (a signature on any other value is a forgeable digit)
        let mut n_sigs = 0usize;
        while rt.span(&format!("digit_signatures.{}", n_sigs)).is_some() { n_sigs += 1; }
        out.push(json!({"ev": "rangeparams", "case": "exactly 128 digit signatures are published", "expect_ok": true, "validate_ok": n_sigs == 128, "all_signatures_valid_independently": n_sigs == 128}));
    }
    out.push(json!({"ev": "rangeparams", "case": "published sigma1 all distinct", "expect_ok": true, "validate_ok": sigma1_distinct, "all_signatures_valid_independently": sigma1_distinct}));
    // ---- parameter validation: accepts exactly the sets whose i-th signature verifies on digit i
    let akp = KeyPair::<1>::new(&mut rng);
    let mut subs: Vec<(String, usize, Signature, bool)> = vec![("untouched".into(), 0, sig(0), true)];
    for (i, j) in [(0usize, 1usize), (1, 0), (5, 6), (127, 126), (64, 0), (0, 127)] { subs.push((format!("signature {} replaced by signature {}", i, j), i, sig(j), false)); }
    for i in [0usize, 1, 77, 127] {
        let mut s_ = sig(i); s_.randomize(&mut rng);
        subs.push((format!("signature {} re-randomised", i), i, s_, true));
        subs.push((format!("signature {} replaced by one under another key", i), i, Message::<1>::new([sc(i as u64)]).sign(&mut rng, &akp), false));
        subs.push((format!("signature {} replaced by the other parameter set's", i), i, published_sig(&Tree::of(&other_rp), i), false));
    }
    if thorough { for i in 2..127usize { subs.push((format!("signature {} replaced by signature {}", i, i + 1), i, sig(i + 1), false)); } }
    // two signatures made invalid by opposite errors: sigma2_a + D, sigma2_b - D (an unweighted batch check over
    // signatures with a common... any base would have to weigh them; each is invalid on its own)
    let mut pair_subs: Vec<(String, Vec<(usize, Signature)>)> = vec![];
    for (a, b) in [(5usize, 127usize), (0, 1)] {
        let d = G1Projective::generator() * Scalar::from(11u64);
        let mk = |s: Signature, plus: bool| -> Signature {
            let s2 = if plus { G1Projective::from(s.sigma2()) + d } else { G1Projective::from(s.sigma2()) - d };
            let mut bb = s.sigma1().to_compressed().to_vec();
            bb.extend_from_slice(&G1Affine::from(s2).to_compressed());
            bincode::deserialize(&bb).unwrap()
        };
        pair_subs.push((format!("signatures {} and {} shifted by +D and -D", a, b), vec![(a, mk(sig(a), true)), (b, mk(sig(b), false))]));
    }
    for (name, reps) in pair_subs {
        let mut b = rt.bytes.clone();
        for (i, s_) in &reps {
            let (lo, hi) = rt.span(&format!("digit_signatures.{}", i)).unwrap();
            b[lo..hi].copy_from_slice(&bincode::serialize(s_).unwrap());
        }
        let p2: RangeConstraintParameters = bincode::deserialize(&b).unwrap();
        let t2 = Tree::of(&p2);
        let mut all_ok = true;
        for k in 0..128usize {
            let sk = published_sig(&t2, k);
            let (wf, pe) = indep::ps_relation(&rpkv, &[sc(k as u64)], &sk.sigma1(), &sk.sigma2());
            all_ok = all_ok && wf && pe;
        }
        out.push(json!({"ev": "rangeparams", "case": name, "expect_ok": false, "validate_ok": p2.validate().is_ok(), "all_signatures_valid_independently": all_ok}));
    }
    for (name, i, s_, expect) in subs {
        let mut b = rt.bytes.clone();
        let (lo, hi) = rt.span(&format!("digit_signatures.{}", i)).unwrap();
        b[lo..hi].copy_from_slice(&bincode::serialize(&s_).unwrap());
        let p2: RangeConstraintParameters = bincode::deserialize(&b).unwrap();
        let t2 = Tree::of(&p2);
        let mut all_ok = true;
        for k in 0..128usize {
            let sk = published_sig(&t2, k);
            let (wf, pe) = indep::ps_relation(&rpkv, &[sc(k as u64)], &sk.sigma1(), &sk.sigma2());
            all_ok = all_ok && wf && pe;
        }
        out.push(json!({"ev": "rangeparams", "case": name, "expect_ok": expect, "validate_ok": p2.validate().is_ok(), "all_signatures_valid_independently": all_ok}));
    }
    out
}

#[allow(dead_code)]
fn _keep(_: &Sp, _: &G2Affine, _: &G2Projective, _: &PedersenParameters<G1Projective, 1>, _: &PublicKey<1>, _: &CommitmentProofBuilder<G1Projective, 1>,
         _: &RangeConstraintBuilder, _: &RangeConstraintParameters, _: &SignatureProofBuilder<1>) {
    let _ = G1Projective::identity().to_affine();
}
