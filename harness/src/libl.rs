//! Library layer (zkchannels-crypto): executes operation chains / proof cases against the real
//! code and logs verdicts together with independently evaluated relation atoms.
//! Commands: psig (C07, C08), pedersen (C09), schnorr (C10, C11), range (C13).
use crate::indep::{self, Cp, Pk, Sp};
use crate::rec::Tree;
use crate::rngs::{seeded, Draw, Scripted};
use crate::util::panic_message;
use bls12_381::{G1Affine, G1Projective, G2Affine, G2Projective, Scalar};
use ff::Field;
use group::{Curve, Group};
use rand::rngs::StdRng;
use serde_json::{json, Value};
use std::panic::{catch_unwind, AssertUnwindSafe};
use zkchannels_crypto::pedersen::PedersenParameters;
use zkchannels_crypto::pointcheval_sanders::{BlindedSignature, KeyPair, PublicKey, Signature};
use zkchannels_crypto::proofs::{
    ChallengeBuilder, CommitmentProofBuilder, RangeConstraintBuilder, RangeConstraintParameters,
    SignatureProofBuilder, SignatureRequestProofBuilder,
};
use zkchannels_crypto::{BlindingFactor, Message};

pub fn class_scalar(class: &str, rng: &mut StdRng) -> Scalar {
    match class {
        "zero" => Scalar::zero(),
        "one" => Scalar::one(),
        "minus_one" => -Scalar::one(),
        "small" => Scalar::from(7u64),
        _ => Scalar::random(&mut *rng),
    }
}
fn class_draw(class: &str) -> Draw {
    match class {
        "zero" => Draw::Zero,
        "one" => Draw::Scalar(Scalar::one().to_bytes()),
        "minus_one" => Draw::Scalar((-Scalar::one()).to_bytes()),
        _ => Draw::Generic,
    }
}
fn bf_of(s: &Scalar) -> BlindingFactor {
    bincode::deserialize(&s.to_bytes()).unwrap()
}
/// formal value of a blinding factor class: <<constant, coefficient of generic a, of generic b>>
fn bf_vec(class: &str) -> [i64; 3] {
    match class {
        "zero" => [0, 0, 0],
        "one" => [1, 0, 0],
        "minus_one" => [-1, 0, 0],
        "a" => [0, 1, 0],
        _ => [0, 0, 1],
    }
}

enum SigObj {
    Plain(Signature),
    Blinded(BlindedSignature),
}

/// message class vectors for tuple length N
fn message_classes(n: usize) -> Vec<Vec<&'static str>> {
    let mut v: Vec<Vec<&'static str>> = vec![vec!["random"; n], vec!["zero"; n], vec!["one"; n], vec!["minus_one"; n], vec!["small"; n]];
    if n >= 2 {
        // a zero entry followed by a non-zero entry, and the reverse
        let mut a = vec!["random"; n];
        a[0] = "zero";
        v.push(a);
        let mut b = vec!["random"; n];
        b[n - 1] = "zero";
        v.push(b);
        let mut c = vec!["zero"; n];
        c[n - 1] = "random";
        v.push(c);
    }
    if n >= 3 {
        let mut a = vec!["random"; n];
        a[1] = "zero";
        v.push(a);
    }
    v
}

type Op = (&'static str, &'static str, &'static str); // (op, randomiser class, blinding factor class)

fn chains(thorough: bool) -> Vec<Vec<Op>> {
    let rs: Vec<&'static str> = if thorough { vec!["generic", "one", "minus_one", "zero"] } else { vec!["generic", "one", "zero"] };
    let mut c: Vec<Vec<Op>> = vec![vec![]];
    for &r in &rs {
        c.push(vec![("randomize", r, "")]);
        c.push(vec![("blind_and_randomize", r, "a"), ("unblind", "", "a")]);
        c.push(vec![("blind_and_randomize", r, "a"), ("brandomize", "generic", ""), ("unblind", "", "a")]);
        c.push(vec![("blind_and_randomize", "generic", "a"), ("brandomize", r, ""), ("unblind", "", "a")]);
        c.push(vec![("blindsign", r, "a"), ("unblind", "", "a")]);
        c.push(vec![("blindsign", r, "a"), ("brandomize", "generic", ""), ("unblind", "", "a")]);
        c.push(vec![("randomize", "generic", ""), ("randomize", r, "")]);
    }
    // wrong or missing blinding factors
    c.push(vec![("blind_and_randomize", "generic", "a"), ("unblind", "", "b")]);
    c.push(vec![("blind_and_randomize", "generic", "a"), ("unblind", "", "zero")]);
    c.push(vec![("blind_and_randomize", "generic", "zero"), ("unblind", "", "zero")]);
    c.push(vec![("blind_and_randomize", "generic", "one"), ("unblind", "", "one")]);
    c.push(vec![("blind_and_randomize", "generic", "one"), ("unblind", "", "zero")]);
    c.push(vec![("blind_and_randomize", "generic", "zero"), ("unblind", "", "one")]);
    c.push(vec![("blind_and_randomize", "generic", "one"), ("unblind", "", "minus_one")]);
    c.push(vec![("blindsign", "generic", "a"), ("unblind", "", "b")]);
    c.push(vec![("blindsign", "generic", "a"), ("unblind", "", "zero")]);
    c.push(vec![("blindsign", "generic", "zero"), ("unblind", "", "zero")]);
    c.push(vec![("blindsign", "generic", "one"), ("unblind", "", "one")]);
    c.push(vec![("blindsign", "generic", "one"), ("unblind", "", "zero")]);
    // longer chains
    c.push(vec![("blind_and_randomize", "generic", "a"), ("unblind", "", "a"), ("blind_and_randomize", "generic", "b"), ("unblind", "", "b")]);
    c.push(vec![("blind_and_randomize", "generic", "a"), ("unblind", "", "a"), ("blind_and_randomize", "generic", "b"), ("unblind", "", "a")]);
    c.push(vec![("randomize", "generic", ""), ("blind_and_randomize", "generic", "a"), ("unblind", "", "a"), ("randomize", "generic", "")]);
    c.push(vec![("blindsign", "generic", "a"), ("unblind", "", "a"), ("blind_and_randomize", "generic", "b"), ("unblind", "", "b")]);
    c
}

fn psig_n<const N: usize>(rng: &mut StdRng, thorough: bool, out: &mut Vec<Value>) {
    let kp = KeyPair::<N>::new(rng);
    let pk = kp.public_key().clone();
    let other = KeyPair::<N>::new(rng);
    let pkv = Pk::from_tree(&Tree::of(&pk), "").unwrap();
    let opkv = Pk::from_tree(&Tree::of(other.public_key()), "").unwrap();
    let ga = Scalar::random(&mut *rng);
    let gb = Scalar::random(&mut *rng);
    let bfval = |class: &str| -> Scalar {
        match class { "zero" => Scalar::zero(), "one" => Scalar::one(), "minus_one" => -Scalar::one(), "a" => ga, _ => gb }
    };
    let mcs = message_classes(N);
    let chs = chains(thorough);
    for (mi, mc) in mcs.iter().enumerate() {
        for (ci, ch) in chs.iter().enumerate() {
            // the chain semantics do not depend on N: all chains for N <= 3, a rotating sample for larger N
            if N > 3 && (mi + ci) % (if thorough { 2 } else { 5 }) != 0 { continue; }
            if !thorough && N == 3 && (mi + ci) % 2 != 0 { continue; }
            let mut mv = [Scalar::zero(); N];
            for i in 0..N { mv[i] = class_scalar(mc[i], rng); }
            let msg = Message::<N>::new(mv);
            let res = catch_unwind(AssertUnwindSafe(|| {
                let mut obj = SigObj::Plain(msg.sign(&mut seeded(ci as u64 * 31 + mi as u64, 9), &kp));
                let mut ops = vec![];
                for &(op, rc, bc) in ch {
                    let mut srng = Scripted::new(vec![class_draw(rc)], 17 + ci as u64);
                    obj = match (op, obj) {
                        ("randomize", SigObj::Plain(mut s)) => { s.randomize(&mut srng); SigObj::Plain(s) }
                        ("brandomize", SigObj::Blinded(mut b)) => { b.randomize(&mut srng); SigObj::Blinded(b) }
                        ("blind_and_randomize", SigObj::Plain(s)) => SigObj::Blinded(s.blind_and_randomize(&mut srng, bf_of(&bfval(bc)))),
                        ("unblind", SigObj::Blinded(b)) => SigObj::Plain(b.unblind(bf_of(&bfval(bc)))),
                        ("blindsign", _) => {
                            // a fresh blind signature on the same message through the request protocol
                            let mut r2 = seeded(99 + ci as u64, 3);
                            let bf = bfval(bc);
                            // the builder draws its own blinding factor first: script it to the chosen value
                            let mut brng = Scripted::new(vec![Draw::Scalar(bf.to_bytes())], 5);
                            let b = SignatureRequestProofBuilder::<N>::generate_proof_commitments(&mut brng, Message::<N>::new(mv), &[None; N], &pk);
                            assert_eq!(b.message_blinding_factor().as_scalar(), bf);
                            let c = ChallengeBuilder::new().with(&b).finish();
                            let p = b.generate_proof_response(c);
                            let vbm = p.verify_knowledge_of_opening(&pk, c).expect("honest request verifies");
                            let _ = &mut r2;
                            SigObj::Blinded(vbm.blind_sign(&kp, &mut srng))
                        }
                        (o, _) => panic!("chain not well-typed at {}", o),
                    };
                    ops.push(json!({"op": op, "r": rc, "bf": bf_vec(bc)}));
                }
                let sig = match obj {
                    SigObj::Plain(s) => s,
                    SigObj::Blinded(_) => panic!("chain ends blinded"),
                };
                (sig, ops)
            }));
            let (sig, ops) = match res {
                Ok(x) => x,
                Err(e) => { out.push(json!({"ev": "psig", "N": N, "error": panic_message(e)})); continue; }
            };
            let (s1, s2) = (sig.sigma1(), sig.sigma2());
            let mut checks = vec![];
            let (wf, pe) = indep::ps_relation(&pkv, &mv, &s1, &s2);
            checks.push(json!({"kind": "same", "verdict": sig.verify(&pk, &msg), "pairing_eq": pe}));
            let (_, pe_any) = indep::ps_relation(&pkv, &[Scalar::from(12345u64); N], &s1, &s2);
            checks.push(json!({"kind": "pairing_any", "verdict": sig.verify(&pk, &Message::<N>::new([Scalar::from(12345u64); N])) , "pairing_eq": pe_any}));
            for i in 0..N {
                let deltas: Vec<Scalar> = if thorough || N <= 2 { vec![Scalar::one(), -Scalar::one(), -mv[i] + Scalar::from(3u64)] } else { vec![Scalar::one()] };
                for delta in deltas {
                    let mut m2 = mv;
                    m2[i] += delta;
                    if m2[i] == mv[i] { continue; }
                    let (_, pe2) = indep::ps_relation(&pkv, &m2, &s1, &s2);
                    checks.push(json!({"kind": "coord", "idx": i, "verdict": sig.verify(&pk, &Message::<N>::new(m2)), "pairing_eq": pe2}));
                }
                if N >= 2 && (thorough || N <= 3 || i % 4 == 0) {
                    // swap coordinate i with its neighbour (catches misaligned key / message pairing)
                    let j = (i + 1) % N;
                    let mut m3 = mv;
                    m3.swap(i, j);
                    if m3 != mv {
                        let (_, pe3) = indep::ps_relation(&pkv, &m3, &s1, &s2);
                        checks.push(json!({"kind": "coord", "idx": i, "swap": j, "verdict": sig.verify(&pk, &Message::<N>::new(m3)), "pairing_eq": pe3}));
                    }
                }
            }
            let (_, peo) = indep::ps_relation(&opkv, &mv, &s1, &s2);
            checks.push(json!({"kind": "otherkey", "verdict": sig.verify(other.public_key(), &msg), "pairing_eq": peo}));
            // "pairing_any" is only meaningful for the identity signature; drop its verdict constraint otherwise
            out.push(json!({"ev": "psig", "N": N, "msg": mc, "ops": ops, "s1_is_identity": !wf, "checks": checks}));
        }
    }
    // ---- C08: signature requests, honest and tampered
    for mc in mcs.iter().take(if thorough { 99 } else { 4 }) {
        let mut mv = [Scalar::zero(); N];
        for i in 0..N { mv[i] = class_scalar(mc[i], rng); }
        let b = SignatureRequestProofBuilder::<N>::generate_proof_commitments(rng, Message::<N>::new(mv), &[None; N], &pk);
        let c = ChallengeBuilder::new().with(&b).finish();
        let bf = b.message_blinding_factor();
        let p = b.generate_proof_response(c);
        let tree = Tree::of(&p);
        let mut cases: Vec<(String, Vec<u8>, bool)> = vec![("none".into(), tree.bytes.clone(), false)];
        for l in tree.atoms() {
            let mut bts = tree.bytes.clone();
            let new: Vec<u8> = match l.len {
                32 => (indep::sc(&tree.bytes[l.off..l.off + 32]).unwrap() + Scalar::one()).to_bytes().to_vec(),
                _ => G1Affine::from(G1Projective::from(indep::g1(&tree.bytes[l.off..l.off + 48]).unwrap()) + G1Projective::generator()).to_compressed().to_vec(),
            };
            bts[l.off..l.off + l.len].copy_from_slice(&new);
            cases.push((l.path.clone(), bts, false));
        }
        // swap commitment and scalar commitment
        {
            let mut bts = tree.bytes.clone();
            let a = tree.get("commitment_proof.commitment").unwrap().clone();
            let t = tree.get("commitment_proof.scalar_commitment").unwrap().clone();
            let (ab, tb) = (tree.bytes[a.off..a.off + 48].to_vec(), tree.bytes[t.off..t.off + 48].to_vec());
            bts[a.off..a.off + 48].copy_from_slice(&tb);
            bts[t.off..t.off + 48].copy_from_slice(&ab);
            cases.push(("swap C/T".into(), bts, false));
        }
        cases.push(("challenge".into(), tree.bytes.clone(), true));
        cases.push(("other key".into(), tree.bytes.clone(), false));
        for (tamper, bts, wrong_chal) in cases {
            let p2: zkchannels_crypto::proofs::SignatureRequestProof<N> = match bincode::deserialize(&bts) { Ok(p) => p, Err(_) => continue };
            let ch = if wrong_chal { ChallengeBuilder::new().with(&p2).with_bytes(b"x").finish() } else { c };
            let vpk = if tamper == "other key" { other.public_key() } else { &pk };
            let vpkv = if tamper == "other key" { &opkv } else { &pkv };
            let cp = Cp::from_tree(&Tree { bytes: bts.clone(), leaves: tree.leaves.clone() }, "commitment_proof").unwrap();
            let schnorr = cp.schnorr_g1(&vpkv.g1, &vpkv.y1s, &ch.to_scalar());
            let r = catch_unwind(AssertUnwindSafe(|| p2.verify_knowledge_of_opening(vpk, ch)));
            let mut ev = json!({"ev": "request", "N": N, "msg": mc, "tamper": tamper, "schnorr_holds": schnorr});
            match r {
                Ok(Some(vbm)) => {
                    ev["out"] = json!("some");
                    if tamper == "none" {
                        // the blind-signable value is the commitment the proof is about: signing it and
                        // unblinding with the requester's factor verifies on the message and on nothing else
                        let sig = vbm.blind_sign(&kp, rng).unblind(bf);
                        let mut ok = sig.verify(&pk, &Message::<N>::new(mv));
                        for i in 0..N {
                            let mut m2 = mv;
                            m2[i] += Scalar::one();
                            ok = ok && !sig.verify(&pk, &Message::<N>::new(m2));
                        }
                        ev["signs_the_proven_message"] = json!(ok);
                        if !ok { ev["out"] = json!("some-but-wrong-value"); }
                    }
                }
                Ok(None) => ev["out"] = json!("none"),
                Err(e) => ev["out"] = json!(format!("panic:{}", panic_message(e))),
            }
            out.push(ev);
        }
    }
}

pub fn psig(seed: u64, thorough: bool) -> Vec<Value> {
    // one thread per tuple length
    macro_rules! spawn_n {
        ($n:literal) => {
            std::thread::spawn(move || {
                let mut rng = seeded(seed, 61 + $n);
                let mut out = vec![];
                psig_n::<$n>(&mut rng, thorough, &mut out);
                out
            })
        };
    }
    let hs = vec![spawn_n!(1), spawn_n!(2), spawn_n!(3), spawn_n!(5), spawn_n!(8), spawn_n!(13)];
    let mut out = vec![];
    for h in hs {
        out.extend(h.join().expect("psig worker"));
    }
    out
}


// ====================================================================== Pedersen (C09)

trait Grp: Group<Scalar = Scalar> + zkchannels_crypto::SerializeElement + Copy {
    const NAME: &'static str;
}
impl Grp for G1Projective { const NAME: &'static str = "G1"; }
impl Grp for G2Projective { const NAME: &'static str = "G2"; }

fn pedersen_n<G: Grp, const N: usize>(rng: &mut StdRng, thorough: bool, out: &mut Vec<Value>) {
    let classes = ["zero", "one", "minus_one", "random"];
    // parameter sets: generated by the library (read back through the wire tree) and supplied explicitly,
    // including generators with a known relation (g_1 = h)
    let mut gens: Vec<(&str, G, Vec<G>)> = vec![];
    {
        let p = PedersenParameters::<G, N>::new(rng);
        let t = Tree::of(&p);
        let rd = |path: &str| -> G {
            let b = t.bytes_at(path).unwrap();
            let w = bincode::serialize(&Wrap::<G>(G::identity())).unwrap();
            assert_eq!(w.len(), b.len());
            bincode::deserialize::<Wrap<G>>(b).unwrap().0
        };
        gens.push(("generated", rd("h"), (0..N).map(|i| rd(&format!("gs.{}", i))).collect()));
    }
    let h = G::random(&mut *rng);
    let mut gs: Vec<G> = (0..N).map(|_| G::random(&mut *rng)).collect();
    gens.push(("explicit", h, gs.clone()));
    gs[0] = h;
    gens.push(("explicit, g_1 = h", h, gs.clone()));
    for (pname, h, gs) in gens {
        let mut arr = [G::identity(); N];
        arr.copy_from_slice(&gs);
        let params = if pname == "generated" { None } else { Some(PedersenParameters::<G, N>::from_generators(h, arr)) };
        let params = params.unwrap_or_else(|| PedersenParameters::<G, N>::from_generators(h, arr));
        let mut cases: Vec<(Vec<&str>, &str)> = vec![];
        for mc in classes { for rc in classes { cases.push((vec![mc; N], rc)); } }
        if N >= 2 {
            let mut a = vec!["random"; N]; a[0] = "zero"; cases.push((a.clone(), "random")); cases.push((a, "zero"));
            let mut b = vec!["zero"; N]; b[N - 1] = "one"; cases.push((b.clone(), "minus_one")); cases.push((b, "one"));
        }
        if pname == "explicit, g_1 = h" {
            // m = (1, 0, ..), r = q-1: the commitment is the identity element
            let mut a = vec!["zero"; N]; a[0] = "one"; cases.push((a, "minus_one"));
        }
        for (ci, (mc, rc)) in cases.iter().enumerate() {
            if !thorough && N > 3 && ci % 3 != 0 { continue; }
            let mut mv = [Scalar::zero(); N];
            for i in 0..N { mv[i] = class_scalar(mc[i], rng); }
            let r = class_scalar(rc, rng);
            let msg = Message::<N>::new(mv);
            let com = msg.commit(&params, bf_of(&r));
            let mut acc = h * r;
            for i in 0..N { acc += gs[i] * mv[i]; }
            let elem_eq = com.to_element() == acc;
            let verify_orig = com.verify_opening(&params, bf_of(&r), &msg);
            let mut pert = vec![];
            for i in 0..N {
                for d in [Scalar::one(), -Scalar::one()] {
                    let mut m2 = mv; m2[i] += d;
                    let mut acc2 = h * r;
                    for k in 0..N { acc2 += gs[k] * m2[k]; }
                    pert.push(json!({"kind": "coord", "idx": i, "verdict": com.verify_opening(&params, bf_of(&r), &Message::<N>::new(m2)), "recomputed_eq": acc2 == acc}));
                }
            }
            for d in [Scalar::one(), -Scalar::one(), -r, Scalar::one() - r] {
                if d == Scalar::zero() { continue; }
                let r2 = r + d;
                let mut acc2 = h * r2;
                for k in 0..N { acc2 += gs[k] * mv[k]; }
                pert.push(json!({"kind": "bf", "verdict": com.verify_opening(&params, bf_of(&r2), &msg), "recomputed_eq": acc2 == acc}));
            }
            // homomorphism with a second opening
            let mut m2 = [Scalar::zero(); N];
            for i in 0..N { m2[i] = class_scalar(mc[(i + 1) % N], rng); }
            let r2 = class_scalar(if ci % 2 == 0 { "random" } else { "one" }, rng);
            let com2 = Message::<N>::new(m2).commit(&params, bf_of(&r2));
            let mut ms = [Scalar::zero(); N];
            for i in 0..N { ms[i] = mv[i] + m2[i]; }
            let coms = Message::<N>::new(ms).commit(&params, bf_of(&(r + r2)));
            let additive = com.to_element() + com2.to_element() == coms.to_element();
            // a commitment to something else does not open
            let other = Message::<N>::new(m2).commit(&params, bf_of(&r2));
            let other_differs = other.to_element() != com.to_element();
            let other_verdict = other.verify_opening(&params, bf_of(&r), &msg);
            out.push(json!({"ev": "pedersen", "group": G::NAME, "N": N, "params": pname, "m": mc, "r": rc, "elem_eq_independent": elem_eq,
                            "verify_original": verify_orig, "commitment_is_identity": bool::from(acc.is_identity()), "perturbed": pert, "additive": additive,
                            "other": {"differs": other_differs, "verdict": other_verdict}}));
        }
    }
}

#[derive(serde::Serialize, serde::Deserialize)]
#[serde(bound = "G: zkchannels_crypto::SerializeElement")]
struct Wrap<G: zkchannels_crypto::SerializeElement>(#[serde(with = "zkchannels_crypto::SerializeElement")] G);

pub fn pedersen(seed: u64, thorough: bool) -> Vec<Value> {
    macro_rules! spawn_n {
        ($n:literal) => {
            std::thread::spawn(move || {
                let mut rng = seeded(seed, 620 + $n);
                let mut out = vec![];
                pedersen_n::<G1Projective, $n>(&mut rng, thorough, &mut out);
                pedersen_n::<G2Projective, $n>(&mut rng, thorough, &mut out);
                out
            })
        };
    }
    let hs = vec![spawn_n!(1), spawn_n!(2), spawn_n!(3), spawn_n!(5), spawn_n!(8), spawn_n!(13)];
    let mut out = vec![];
    for h in hs { out.extend(h.join().expect("pedersen worker")); }
    out
}

#[allow(dead_code)]
fn _keep(_: &Sp, _: &G2Affine, _: &G2Projective, _: &PedersenParameters<G1Projective, 1>, _: &PublicKey<1>, _: &CommitmentProofBuilder<G1Projective, 1>,
         _: &RangeConstraintBuilder, _: &RangeConstraintParameters, _: &SignatureProofBuilder<1>) {
    let _ = G1Projective::identity().to_affine();
}
