//! zkverif: conformance harness binding the TLA+ specifications in /verif/spec to the real
//! libzkchannels-crypto code in /repo.  Sub-commands execute action scripts against the
//! implementation and write ndjson traces that TLC validates against the Trace_* specifications.
#![allow(clippy::all)]
mod proto;
mod rec;
mod rngs;
mod util;

use std::collections::HashMap;
use std::io::Write;

fn args() -> (String, HashMap<String, String>) {
    let a: Vec<String> = std::env::args().collect();
    let cmd = a.get(1).cloned().unwrap_or_default();
    let mut m = HashMap::new();
    let mut i = 2;
    while i < a.len() {
        if a[i].starts_with("--") {
            let k = a[i][2..].to_string();
            let v = a.get(i + 1).cloned().unwrap_or_default();
            let _ = m.insert(k, v);
            i += 2;
        } else {
            i += 1;
        }
    }
    (cmd, m)
}

fn write_events(path: &str, events: &[serde_json::Value]) {
    let mut f = std::io::BufWriter::new(std::fs::File::create(path).expect("create trace file"));
    for e in events {
        writeln!(f, "{}", e).unwrap();
    }
}

fn main() {
    // panics inside the code under test are data: keep the hook quiet, but remember the last
    // location so that a panic escaping the harness itself can be reported
    std::panic::set_hook(Box::new(|info| {
        let loc = info.location().map(|l| format!("{}:{}", l.file(), l.line())).unwrap_or_default();
        LAST_PANIC.with(|p| *p.borrow_mut() = format!("{} at {}", info, loc));
    }));
    let r = std::panic::catch_unwind(real_main);
    if r.is_err() {
        LAST_PANIC.with(|p| eprintln!("HARNESS-PANIC: {}", p.borrow()));
        std::process::exit(101);
    }
}

thread_local! {
    static LAST_PANIC: std::cell::RefCell<String> = std::cell::RefCell::new(String::new());
}

fn real_main() {
    let (cmd, a) = args();
    let seed: u64 = a.get("seed").and_then(|s| s.parse().ok()).unwrap_or(1);
    match cmd.as_str() {
        "proto" => {
            let script = std::fs::read_to_string(&a["script"]).expect("script");
            let events = proto::run_script(&script, seed);
            write_events(&a["out"], &events);
        }
        _ => {
            eprintln!("usage: zkverif <proto> --script F --out F [--seed N]");
            std::process::exit(2);
        }
    }
}
