//! zkverif: conformance harness binding the TLA+ specifications in /verif/spec to the real
//! libzkchannels-crypto code in /repo.  Sub-commands execute action scripts against the
//! implementation and write ndjson traces that TLC validates against the Trace_* specifications.
#![allow(clippy::all)]
mod bind;
mod game;
mod hiding;
mod indep;
mod ledger;
mod libl;
mod proto;
mod revpair;
mod rnglayer;
mod rec;
mod rngs;
mod util;
mod wire;

#[global_allocator]
static GLOBAL: wire::Tracking = wire::Tracking;

use std::collections::HashMap;
use std::io::Write;

fn args() -> (String, HashMap<String, String>) {
    let a: Vec<String> = std::env::args().collect();
    let cmd = a.get(1).cloned().unwrap_or_default();
    let mut m = HashMap::new();
    let mut i = 2;
    while i < a.len() {
        if a[i].starts_with("--") {
            let k = a[i][2..].to_string();
            let v = a.get(i + 1).cloned().unwrap_or_default();
            let _ = m.insert(k, v);
            i += 2;
        } else {
            i += 1;
        }
    }
    (cmd, m)
}

fn write_events(path: &str, events: &[serde_json::Value]) {
    let mut f = std::io::BufWriter::new(std::fs::File::create(path).expect("create trace file"));
    for e in events {
        writeln!(f, "{}", e).unwrap();
    }
}

fn main() {
    // panics inside the code under test are data: keep the hook quiet, but remember the last
    // location so that a panic escaping the harness itself can be reported
    std::panic::set_hook(Box::new(|info| {
        let loc = info.location().map(|l| format!("{}:{}", l.file(), l.line())).unwrap_or_default();
        LAST_PANIC.with(|p| *p.borrow_mut() = format!("{} at {}", info, loc));
    }));
    let r = std::panic::catch_unwind(real_main);
    if r.is_err() {
        LAST_PANIC.with(|p| eprintln!("HARNESS-PANIC: {}", p.borrow()));
        std::process::exit(101);
    }
}

thread_local! {
    static LAST_PANIC: std::cell::RefCell<String> = std::cell::RefCell::new(String::new());
}

fn real_main() {
    let (cmd, a) = args();
    let seed: u64 = a.get("seed").and_then(|s| s.parse().ok()).unwrap_or(1);
    match cmd.as_str() {
        "dump-trees" => dump_trees(),
        "pedersen" => {
            let thorough = a.get("tier").map(|t| t == "thorough").unwrap_or(false);
            write_events(&a["out"], &libl::pedersen(seed, thorough));
        }
        "schnorr" => {
            let thorough = a.get("tier").map(|t| t == "thorough").unwrap_or(false);
            write_events(&a["out"], &libl::schnorr(seed, thorough));
        }
        "range" => {
            let thorough = a.get("tier").map(|t| t == "thorough").unwrap_or(false);
            write_events(&a["out"], &libl::range(seed, thorough));
        }
        "ledger" => {
            let thorough = a.get("tier").map(|t| t == "thorough").unwrap_or(false);
            write_events(&a["out"], &ledger::run(seed, thorough));
        }
        "hiding" => {
            let thorough = a.get("tier").map(|t| t == "thorough").unwrap_or(false);
            write_events(&a["out"], &hiding::run(seed, thorough));
        }
        "c18" => {
            let thorough = a.get("tier").map(|t| t == "thorough").unwrap_or(false);
            write_events(&a["out"], &rnglayer::run_c18(seed, thorough));
        }
        "c19" => {
            let thorough = a.get("tier").map(|t| t == "thorough").unwrap_or(false);
            write_events(&a["out"], &rnglayer::run_c19(seed, thorough));
        }
        "c15" | "c16" => {
            let thorough = a.get("tier").map(|t| t == "thorough").unwrap_or(false);
            wire::parent(&cmd, seed, thorough, &a["out"]);
        }
        "wire-worker" => {
            let thorough = a.get("tier").map(|t| t == "thorough").unwrap_or(false);
            let start: usize = a.get("start").and_then(|s| s.parse().ok()).unwrap_or(0);
            let modulus: usize = a.get("mod").and_then(|s| s.parse().ok()).unwrap_or(1);
            let rem: usize = a.get("rem").and_then(|s| s.parse().ok()).unwrap_or(0);
            wire::worker(&a["which"], seed, thorough, start, &a["out"], modulus, rem);
        }
        "psig" => {
            let thorough = a.get("tier").map(|t| t == "thorough").unwrap_or(false);
            write_events(&a["out"], &libl::psig(seed, thorough));
        }
        "transcript" => {
            let thorough = a.get("tier").map(|t| t == "thorough").unwrap_or(false);
            let mut ev = bind::transcript_lib(seed, thorough);
            let mut g = game::GameEnv::new(seed);
            ev.extend(g.transcript_abacus(thorough));
            write_events(&a["out"], &ev);
        }
        "tuple" => {
            let thorough = a.get("tier").map(|t| t == "thorough").unwrap_or(false);
            let mut g = game::GameEnv::new(seed);
            let mut ev = g.tuple_binding(thorough);
            ev.extend(g.closing_substitution());
            write_events(&a["out"], &ev);
        }
        "revpair" => {
            let n: usize = a.get("n").and_then(|s| s.parse().ok()).unwrap_or(50);
            write_events(&a["out"], &revpair::run(seed, n));
        }
        "observe" => {
            let mut g = game::GameEnv::new(seed);
            let v = match a["proof"].as_str() {
                "establish" => g.observe_establish(),
                _ => g.observe_pay(),
            };
            std::fs::write(&a["out"], serde_json::to_string_pretty(&v).unwrap()).unwrap();
        }
        "game" => {
            let mut g = game::GameEnv::new(seed);
            let txt = std::fs::read_to_string(&a["strategies"]).expect("strategies");
            let mut events = vec![];
            for line in txt.lines().filter(|l| !l.trim().is_empty()) {
                let st: serde_json::Value = serde_json::from_str(line).expect("strategy line");
                let ev = match st["proof"].as_str().unwrap_or("") {
                    "establish" => g.establish(&st),
                    _ => g.pay(&st),
                };
                events.push(ev);
            }
            write_events(&a["out"], &events);
        }
        "proto" => {
            let script = std::fs::read_to_string(&a["script"]).expect("script");
            let (events, atoms) = proto::run_script2(&script, seed);
            write_events(&a["out"], &events);
            if let Some(p) = a.get("atoms-out") {
                write_events(p, &atoms);
            }
        }
        _ => {
            eprintln!("usage: zkverif <proto> --script F --out F [--seed N]");
            std::process::exit(2);
        }
    }
}

#[allow(dead_code)]
pub fn dump_trees() {
    use rand::SeedableRng;
    let mut w = proto::World::new(1, 1);
    w.request(1, 10, 5);
    let est: zkabacus_crypto::EstablishProof = bincode::deserialize(w.chans[&1].est.as_ref().unwrap()).unwrap();
    for l in rec::Tree::of(&est).leaves { println!("EST {} off={} len={} {} {}", l.path, l.off, l.len, l.kind, l.ty); }
    w.minit(1); w.receive(1, "honest", None); w.mactivate(1); w.receive(1, "honest", None);
    for l in w.chans[&1].cust.tree().leaves { println!("READY {} off={} len={} {} {}", l.path, l.off, l.len, l.kind, l.ty); }
    w.start(1, 3);
    let pay: zkabacus_crypto::PayProof = bincode::deserialize(&w.chans[&1].pay.as_ref().unwrap().1).unwrap();
    for l in rec::Tree::of(&pay).leaves.iter().take(40) { println!("PAY {} off={} len={} {} {}", l.path, l.off, l.len, l.kind, l.ty); }
    for l in w.chans[&1].cust.tree().leaves { println!("STARTED {} off={} len={} {} {}", l.path, l.off, l.len, l.kind, l.ty); }
    let _ = rand::rngs::StdRng::seed_from_u64(1);
    let pk = w.mers[0].signing_keypair().public_key().clone();
    for l in rec::Tree::of(&pk).leaves { println!("PK {} off={} len={} {} {}", l.path, l.off, l.len, l.kind, l.ty); }
}
