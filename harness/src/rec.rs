//! Recording serializer: walks any `T: Serialize` and produces (a) exactly the bytes `bincode`
//! (1.3, default options: fixint, little endian, u64 lengths, u32 variant tags) produces, and
//! (b) the tree of named leaves with their byte offsets.  All field access of the harness goes
//! through named paths of this tree, never through hard-coded offsets, so wire layouts are
//! discovered from the implementation instead of being assumed.
use serde::ser::{self, Serialize};
use std::fmt;

#[derive(Debug, Clone)]
pub struct Leaf {
    /// dotted path of field names / indices, e.g. `state.revocation_pair.secret.index`
    pub path: String,
    pub off: usize,
    pub len: usize,
    /// `bytes` (a run of u8 = a group element / scalar / 32-byte string), `u8`, `u64`, `i64`,
    /// `len` (sequence length prefix), `tag` (enum variant), `bool`, ...
    pub kind: &'static str,
    /// innermost enclosing struct name
    pub ty: &'static str,
}

#[derive(Debug, Clone)]
pub struct Tree {
    pub bytes: Vec<u8>,
    pub leaves: Vec<Leaf>,
}

impl Tree {
    pub fn of<T: Serialize>(v: &T) -> Tree {
        let mut r = Rec { out: vec![], leaves: vec![], path: vec![], tys: vec![] };
        v.serialize(&mut r).expect("recording serializer");
        let reference = bincode::serialize(v).expect("bincode");
        assert_eq!(reference, r.out, "recording serializer disagrees with bincode");
        Tree { bytes: r.out, leaves: r.leaves }
    }
    pub fn get(&self, path: &str) -> Option<&Leaf> {
        self.leaves.iter().find(|l| l.path == path)
    }
    pub fn bytes_at(&self, path: &str) -> Option<&[u8]> {
        self.get(path).map(|l| &self.bytes[l.off..l.off + l.len])
    }
    /// bytes of the whole subtree rooted at `prefix` (contiguous by construction)
    pub fn span(&self, prefix: &str) -> Option<(usize, usize)> {
        let pre = format!("{}.", prefix);
        let mut lo = usize::MAX;
        let mut hi = 0usize;
        for l in &self.leaves {
            if l.path == prefix || l.path.starts_with(&pre) {
                lo = lo.min(l.off);
                hi = hi.max(l.off + l.len);
            }
        }
        if lo == usize::MAX { None } else { Some((lo, hi)) }
    }
    pub fn u64_at(&self, path: &str) -> Option<u64> {
        let b = self.bytes_at(path)?;
        let mut a = [0u8; 8];
        a.copy_from_slice(b);
        Some(u64::from_le_bytes(a))
    }
    /// all `bytes` leaves (atoms: group elements, scalars, 32-byte strings)
    pub fn atoms(&self) -> impl Iterator<Item = &Leaf> {
        self.leaves.iter().filter(|l| l.kind == "bytes")
    }
}

#[derive(Debug)]
pub struct RecError(String);
impl fmt::Display for RecError {
    fn fmt(&self, f: &mut fmt::Formatter<'_>) -> fmt::Result { write!(f, "{}", self.0) }
}
impl std::error::Error for RecError {}
impl ser::Error for RecError {
    fn custom<T: fmt::Display>(msg: T) -> Self { RecError(msg.to_string()) }
}

struct Rec {
    out: Vec<u8>,
    leaves: Vec<Leaf>,
    path: Vec<String>,
    tys: Vec<&'static str>,
}

impl Rec {
    fn leaf(&mut self, kind: &'static str, bytes: &[u8]) {
        let off = self.out.len();
        self.out.extend_from_slice(bytes);
        self.leaves.push(Leaf {
            path: self.path.join("."),
            off,
            len: bytes.len(),
            kind,
            ty: self.tys.last().copied().unwrap_or(""),
        });
    }
}

pub struct Compound<'a> {
    rec: &'a mut Rec,
    idx: usize,
    /// for tuples: index of the first leaf, to collapse runs of u8
    first_leaf: usize,
    is_tuple: bool,
    pushed_ty: bool,
}

impl<'a> Compound<'a> {
    fn elem<T: ?Sized + Serialize>(&mut self, v: &T) -> Result<(), RecError> {
        self.rec.path.push(self.idx.to_string());
        self.idx += 1;
        let r = v.serialize(&mut *self.rec);
        self.rec.path.pop();
        r
    }
    fn field<T: ?Sized + Serialize>(&mut self, name: &'static str, v: &T) -> Result<(), RecError> {
        self.rec.path.push(name.to_string());
        let r = v.serialize(&mut *self.rec);
        self.rec.path.pop();
        r
    }
    fn finish(self) -> Result<(), RecError> {
        if self.is_tuple {
            let n = self.rec.leaves.len() - self.first_leaf;
            if n > 1 && n == self.idx && self.rec.leaves[self.first_leaf..].iter().all(|l| l.kind == "u8") {
                let off = self.rec.leaves[self.first_leaf].off;
                let ty = self.rec.leaves[self.first_leaf].ty;
                self.rec.leaves.truncate(self.first_leaf);
                self.rec.leaves.push(Leaf { path: self.rec.path.join("."), off, len: n, kind: "bytes", ty });
            }
        }
        if self.pushed_ty {
            let _ = self.rec.tys.pop();
        }
        Ok(())
    }
}

impl<'a> ser::Serializer for &'a mut Rec {
    type Ok = ();
    type Error = RecError;
    type SerializeSeq = Compound<'a>;
    type SerializeTuple = Compound<'a>;
    type SerializeTupleStruct = Compound<'a>;
    type SerializeTupleVariant = Compound<'a>;
    type SerializeMap = Compound<'a>;
    type SerializeStruct = Compound<'a>;
    type SerializeStructVariant = Compound<'a>;

    fn serialize_bool(self, v: bool) -> Result<(), RecError> { self.leaf("bool", &[v as u8]); Ok(()) }
    fn serialize_i8(self, v: i8) -> Result<(), RecError> { self.leaf("i8", &v.to_le_bytes()); Ok(()) }
    fn serialize_i16(self, v: i16) -> Result<(), RecError> { self.leaf("i16", &v.to_le_bytes()); Ok(()) }
    fn serialize_i32(self, v: i32) -> Result<(), RecError> { self.leaf("i32", &v.to_le_bytes()); Ok(()) }
    fn serialize_i64(self, v: i64) -> Result<(), RecError> { self.leaf("i64", &v.to_le_bytes()); Ok(()) }
    fn serialize_u8(self, v: u8) -> Result<(), RecError> { self.leaf("u8", &[v]); Ok(()) }
    fn serialize_u16(self, v: u16) -> Result<(), RecError> { self.leaf("u16", &v.to_le_bytes()); Ok(()) }
    fn serialize_u32(self, v: u32) -> Result<(), RecError> { self.leaf("u32", &v.to_le_bytes()); Ok(()) }
    fn serialize_u64(self, v: u64) -> Result<(), RecError> { self.leaf("u64", &v.to_le_bytes()); Ok(()) }
    fn serialize_f32(self, v: f32) -> Result<(), RecError> { self.leaf("f32", &v.to_le_bytes()); Ok(()) }
    fn serialize_f64(self, v: f64) -> Result<(), RecError> { self.leaf("f64", &v.to_le_bytes()); Ok(()) }
    fn serialize_char(self, v: char) -> Result<(), RecError> {
        let mut b = [0u8; 4];
        let s = v.encode_utf8(&mut b);
        self.leaf("char", s.as_bytes());
        Ok(())
    }
    fn serialize_str(self, v: &str) -> Result<(), RecError> {
        self.leaf("len", &(v.len() as u64).to_le_bytes());
        self.leaf("str", v.as_bytes());
        Ok(())
    }
    fn serialize_bytes(self, v: &[u8]) -> Result<(), RecError> {
        self.leaf("len", &(v.len() as u64).to_le_bytes());
        self.leaf("bytes", v);
        Ok(())
    }
    fn serialize_none(self) -> Result<(), RecError> { self.leaf("opt", &[0]); Ok(()) }
    fn serialize_some<T: ?Sized + Serialize>(self, v: &T) -> Result<(), RecError> {
        self.leaf("opt", &[1]);
        v.serialize(self)
    }
    fn serialize_unit(self) -> Result<(), RecError> { Ok(()) }
    fn serialize_unit_struct(self, _n: &'static str) -> Result<(), RecError> { Ok(()) }
    fn serialize_unit_variant(self, _n: &'static str, i: u32, _v: &'static str) -> Result<(), RecError> {
        self.leaf("tag", &i.to_le_bytes());
        Ok(())
    }
    fn serialize_newtype_struct<T: ?Sized + Serialize>(self, n: &'static str, v: &T) -> Result<(), RecError> {
        self.tys.push(n);
        let r = v.serialize(&mut *self);
        let _ = self.tys.pop();
        r
    }
    fn serialize_newtype_variant<T: ?Sized + Serialize>(self, _n: &'static str, i: u32, _var: &'static str, v: &T) -> Result<(), RecError> {
        self.leaf("tag", &i.to_le_bytes());
        v.serialize(self)
    }
    fn serialize_seq(self, len: Option<usize>) -> Result<Compound<'a>, RecError> {
        let len = len.ok_or_else(|| RecError("seq without length".into()))?;
        self.path.push("len".into());
        self.leaf("len", &(len as u64).to_le_bytes());
        self.path.pop();
        let first_leaf = self.leaves.len();
        Ok(Compound { rec: self, idx: 0, first_leaf, is_tuple: false, pushed_ty: false })
    }
    fn serialize_tuple(self, _len: usize) -> Result<Compound<'a>, RecError> {
        let first_leaf = self.leaves.len();
        Ok(Compound { rec: self, idx: 0, first_leaf, is_tuple: true, pushed_ty: false })
    }
    fn serialize_tuple_struct(self, n: &'static str, _len: usize) -> Result<Compound<'a>, RecError> {
        self.tys.push(n);
        let first_leaf = self.leaves.len();
        Ok(Compound { rec: self, idx: 0, first_leaf, is_tuple: false, pushed_ty: true })
    }
    fn serialize_tuple_variant(self, _n: &'static str, i: u32, _v: &'static str, _len: usize) -> Result<Compound<'a>, RecError> {
        self.leaf("tag", &i.to_le_bytes());
        let first_leaf = self.leaves.len();
        Ok(Compound { rec: self, idx: 0, first_leaf, is_tuple: false, pushed_ty: false })
    }
    fn serialize_map(self, len: Option<usize>) -> Result<Compound<'a>, RecError> {
        let len = len.ok_or_else(|| RecError("map without length".into()))?;
        self.leaf("len", &(len as u64).to_le_bytes());
        let first_leaf = self.leaves.len();
        Ok(Compound { rec: self, idx: 0, first_leaf, is_tuple: false, pushed_ty: false })
    }
    fn serialize_struct(self, n: &'static str, _len: usize) -> Result<Compound<'a>, RecError> {
        self.tys.push(n);
        let first_leaf = self.leaves.len();
        Ok(Compound { rec: self, idx: 0, first_leaf, is_tuple: false, pushed_ty: true })
    }
    fn serialize_struct_variant(self, _n: &'static str, i: u32, _v: &'static str, _len: usize) -> Result<Compound<'a>, RecError> {
        self.leaf("tag", &i.to_le_bytes());
        let first_leaf = self.leaves.len();
        Ok(Compound { rec: self, idx: 0, first_leaf, is_tuple: false, pushed_ty: false })
    }
    fn is_human_readable(&self) -> bool { false }
}

impl<'a> ser::SerializeSeq for Compound<'a> {
    type Ok = ();
    type Error = RecError;
    fn serialize_element<T: ?Sized + Serialize>(&mut self, v: &T) -> Result<(), RecError> { self.elem(v) }
    fn end(self) -> Result<(), RecError> { self.finish() }
}
impl<'a> ser::SerializeTuple for Compound<'a> {
    type Ok = ();
    type Error = RecError;
    fn serialize_element<T: ?Sized + Serialize>(&mut self, v: &T) -> Result<(), RecError> { self.elem(v) }
    fn end(self) -> Result<(), RecError> { self.finish() }
}
impl<'a> ser::SerializeTupleStruct for Compound<'a> {
    type Ok = ();
    type Error = RecError;
    fn serialize_field<T: ?Sized + Serialize>(&mut self, v: &T) -> Result<(), RecError> { self.elem(v) }
    fn end(self) -> Result<(), RecError> { self.finish() }
}
impl<'a> ser::SerializeTupleVariant for Compound<'a> {
    type Ok = ();
    type Error = RecError;
    fn serialize_field<T: ?Sized + Serialize>(&mut self, v: &T) -> Result<(), RecError> { self.elem(v) }
    fn end(self) -> Result<(), RecError> { self.finish() }
}
impl<'a> ser::SerializeMap for Compound<'a> {
    type Ok = ();
    type Error = RecError;
    fn serialize_key<T: ?Sized + Serialize>(&mut self, v: &T) -> Result<(), RecError> { self.elem(v) }
    fn serialize_value<T: ?Sized + Serialize>(&mut self, v: &T) -> Result<(), RecError> { self.elem(v) }
    fn end(self) -> Result<(), RecError> { self.finish() }
}
impl<'a> ser::SerializeStruct for Compound<'a> {
    type Ok = ();
    type Error = RecError;
    fn serialize_field<T: ?Sized + Serialize>(&mut self, k: &'static str, v: &T) -> Result<(), RecError> { self.field(k, v) }
    fn end(self) -> Result<(), RecError> { self.finish() }
}
impl<'a> ser::SerializeStructVariant for Compound<'a> {
    type Ok = ();
    type Error = RecError;
    fn serialize_field<T: ?Sized + Serialize>(&mut self, k: &'static str, v: &T) -> Result<(), RecError> { self.field(k, v) }
    fn end(self) -> Result<(), RecError> { self.finish() }
}
