//! Small helpers: hex, limb encoding of 64-bit numbers for TLC (32-bit integers), interning.
use serde_json::{json, Value};
use std::collections::HashMap;

pub fn hex(b: &[u8]) -> String {
    b.iter().map(|x| format!("{:02x}", x)).collect()
}
pub fn unhex(s: &str) -> Vec<u8> {
    (0..s.len() / 2).map(|i| u8::from_str_radix(&s[2 * i..2 * i + 2], 16).unwrap()).collect()
}

/// base-10^9 limbs <<a2, a1, a0>> of an unsigned number (see spec/Big.tla)
pub fn limbs(v: u128) -> Value {
    const B: u128 = 1_000_000_000;
    json!([(v / (B * B)) as u64, ((v / B) % B) as u64, (v % B) as u64])
}
/// signed amount as [neg, mag] with limb magnitude
pub fn amt(v: i64) -> Value {
    json!({"neg": v < 0, "mag": limbs(v.unsigned_abs() as u128)})
}

/// Interns byte strings as small integers in first-seen order (1, 2, 3, ...).
#[derive(Default)]
pub struct Interner {
    map: HashMap<Vec<u8>, u32>,
}
impl Interner {
    pub fn id(&mut self, b: &[u8]) -> u32 {
        let n = self.map.len() as u32 + 1;
        *self.map.entry(b.to_vec()).or_insert(n)
    }
    pub fn seen(&self, b: &[u8]) -> Option<u32> {
        self.map.get(b).copied()
    }
    pub fn len(&self) -> usize {
        self.map.len()
    }
}

pub fn panic_message(e: Box<dyn std::any::Any + Send>) -> String {
    if let Some(s) = e.downcast_ref::<&str>() {
        s.to_string()
    } else if let Some(s) = e.downcast_ref::<String>() {
        s.clone()
    } else {
        "panic".to_string()
    }
}
