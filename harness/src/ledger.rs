//! Balance / amount arithmetic (C17): every public constructor and operation on the 64-bit boundary
//! lattice, payment application through `Ready::start` on crafted states, and wire-decoded amounts
//! (including i64::MIN) through `allow_payment`.  Built with overflow checks on.
use crate::game::GameEnv;
use crate::proto::Cust;
use crate::rngs::seeded;
use crate::util::{amt, limbs, panic_message};
use rand::Rng;
use serde_json::{json, Value};
use std::panic::{catch_unwind, AssertUnwindSafe};
use zkabacus_crypto::{Context, CustomerBalance, Error, MerchantBalance, PaymentAmount};

fn res_u(r: std::thread::Result<Result<u64, Error>>) -> (String, u64) {
    match r {
        Ok(Ok(v)) => ("ok".into(), v),
        Ok(Err(Error::AmountTooLarge(_))) => ("AmountTooLarge".into(), 0),
        Ok(Err(Error::InsufficientFunds)) => ("InsufficientFunds".into(), 0),
        Err(e) => (format!("panic:{}", panic_message(e)), 0),
    }
}

pub fn lattice_u(rng: &mut impl Rng, extra: usize) -> Vec<u64> {
    let mut v = vec![0u64, 1, 2, 1 << 31, 1 << 32, 1 << 62, (1 << 63) - 2, (1 << 63) - 1, 1 << 63, (1 << 63) + 1, u64::MAX, u64::MAX - 1, 127, 128];
    for _ in 0..extra { v.push(rng.gen()); v.push(rng.gen::<u64>() >> 1); }
    v
}
pub fn lattice_i(rng: &mut impl Rng, extra: usize) -> Vec<i64> {
    let mut v = vec![0i64, 1, -1, 2, -2, 1 << 31, -(1 << 31), 1 << 32, 1 << 62, -(1 << 62), i64::MAX - 1, i64::MAX, -i64::MAX, i64::MIN + 2, i64::MIN];
    for _ in 0..extra { v.push(rng.gen()); }
    v
}

pub fn run(seed: u64, thorough: bool) -> Vec<Value> {
    let mut rng = seeded(seed, 91);
    let mut out = vec![];
    let us = lattice_u(&mut rng, if thorough { 200 } else { 10 });
    for &u in &us {
        let (o, v) = res_u(catch_unwind(|| CustomerBalance::try_new(u).map(|b| b.into_inner())));
        out.push(json!({"ev": "trynew", "who": "customer", "u": limbs(u as u128), "out": o, "v": limbs(v as u128)}));
        let (o, v) = res_u(catch_unwind(|| MerchantBalance::try_new(u).map(|b| b.into_inner())));
        out.push(json!({"ev": "trynew", "who": "merchant", "u": limbs(u as u128), "out": o, "v": limbs(v as u128)}));
        let r = catch_unwind(|| PaymentAmount::pay_merchant(u).map(|a| a.to_i64()));
        let (o, v) = match r { Ok(Ok(v)) => ("ok".to_string(), v), Ok(Err(_)) => ("AmountTooLarge".into(), 0), Err(e) => (format!("panic:{}", panic_message(e)), 0) };
        out.push(json!({"ev": "payctor", "which": "merchant", "u": limbs(u as u128), "out": o, "a": amt(v)}));
        let r = catch_unwind(|| PaymentAmount::pay_customer(u).map(|a| a.to_i64()));
        let (o, v) = match r { Ok(Ok(v)) => ("ok".to_string(), v), Ok(Err(_)) => ("AmountTooLarge".into(), 0), Err(e) => (format!("panic:{}", panic_message(e)), 0) };
        out.push(json!({"ev": "payctor", "which": "customer", "u": limbs(u as u128), "out": o, "a": amt(v)}));
    }
    // balances read from the wire: the decoder is a constructor too and must agree with try_new; a decoded balance
    // is then used in try_add like any other
    for &u in &us {
        for who in ["customer", "merchant"] {
            let r = catch_unwind(|| {
                if who == "customer" { bincode::deserialize::<CustomerBalance>(&u.to_le_bytes()).map(|b| b.into_inner()) }
                else { bincode::deserialize::<MerchantBalance>(&u.to_le_bytes()).map(|b| b.into_inner()) }
            });
            let (o, v) = match r { Ok(Ok(v)) => ("ok".to_string(), v), Ok(Err(_)) => ("AmountTooLarge".into(), 0), Err(e) => (format!("panic:{}", panic_message(e)), 0) };
            out.push(json!({"ev": "baldecode", "who": who, "u": limbs(u as u128), "out": o, "v": limbs(v as u128)}));
        }
        if let Ok(mb) = bincode::deserialize::<MerchantBalance>(&u.to_le_bytes()) {
            for c in [0u64, 1, i64::MAX as u64] {
                let (o, v) = res_u(catch_unwind(AssertUnwindSafe(|| CustomerBalance::try_new(c).and_then(|cb| mb.try_add(cb)).map(|b| b.into_inner()))));
                if u <= i64::MAX as u64 {
                    out.push(json!({"ev": "tryadd", "m": limbs(u as u128), "c": limbs(c as u128), "out": o, "v": limbs(v as u128), "decoded": true}));
                } else {
                    out.push(json!({"ev": "tryadd_out_of_range_operand", "m": limbs(u as u128), "c": limbs(c as u128), "out": o}));
                }
            }
        }
    }
    // try_add over all pairs of representable balances of the lattice (and pairs summing to exactly 2^63-1 / 2^63)
    let bal: Vec<u64> = us.iter().cloned().filter(|&u| u <= i64::MAX as u64).collect();
    let mut pairs: Vec<(u64, u64)> = vec![];
    for &a in &bal { for &b in &bal { pairs.push((a, b)); } }
    for &a in &bal { pairs.push((a, i64::MAX as u64 - a)); if a > 0 { pairs.push((a, i64::MAX as u64 - a + 1)); } }
    for (m, c) in pairs {
        let (o, v) = res_u(catch_unwind(|| MerchantBalance::try_new(m).and_then(|mb| CustomerBalance::try_new(c).and_then(|cb| mb.try_add(cb))).map(|b| b.into_inner())));
        out.push(json!({"ev": "tryadd", "m": limbs(m as u128), "c": limbs(c as u128), "out": o, "v": limbs(v as u128)}));
    }
    // decoded amounts: every i64 bit pattern is a valid PaymentAmount on the wire
    for &a in &lattice_i(&mut rng, 4) {
        let r = catch_unwind(|| bincode::deserialize::<PaymentAmount>(&a.to_le_bytes()).map(|p| p.to_i64()));
        let (o, v) = match r { Ok(Ok(v)) => ("ok".to_string(), v), Ok(Err(_)) => ("err".into(), 0), Err(e) => (format!("panic:{}", panic_message(e)), 0) };
        out.push(json!({"ev": "amtdecode", "raw": amt(a), "out": o, "a": amt(v), "same": v == a}));
    }
    // payment application through Ready::start on crafted Ready states (balances patched into the image)
    let mut g = GameEnv::new(seed);
    let info = g.honest_ready(100, 50, &[]);
    let c = &g.world.chans[&info.ch];
    let tree = c.cust.tree();
    let cfg = &g.world.ccfgs[c.mer];
    let m = g.world.mers[0];
    let ctx = Context::new(b"ledger");
    let amounts = lattice_i(&mut rng, if thorough { 30 } else { 3 });
    let bals: Vec<u64> = vec![0, 1, 2, 1 << 31, 1 << 62, (1 << 63) - 2, (1 << 63) - 1, 100, 5];
    // successful applications build a full pay proof (~0.1 s): cap them per balance pair
    let max_success = if thorough { 6 } else { 1 };
    for &cb in &bals {
        for &mb in &bals {
            let mut successes = 0usize;
            for &a in &amounts {
                // relative amounts as well
                for a in [a, cb as i64, -(mb as i64), (cb as i64).wrapping_add(1), -(mb as i64) - 1, (i64::MAX as u64 - mb) as i64, ((i64::MAX as u64 - mb) as i64).wrapping_add(1)] {
                    let ncb = cb as i128 - a as i128;
                    let nmb = mb as i128 + a as i128;
                    let will_succeed = (0..=i64::MAX as i128).contains(&ncb) && (0..=i64::MAX as i128).contains(&nmb);
                    if will_succeed { if successes >= max_success { continue; } successes += 1; }
                    let mut b = tree.bytes.clone();
                    crate::game::patch(&mut b, &tree, "state.customer_balance", &cb.to_le_bytes());
                    crate::game::patch(&mut b, &tree, "state.merchant_balance", &mb.to_le_bytes());
                    let ready = match Cust::from_bytes("ready", &b) { Ok(Cust::Ready(r)) => r, _ => continue };
                    let amount: PaymentAmount = bincode::deserialize(&a.to_le_bytes()).unwrap();
                    let mut r2 = seeded(seed, 92);
                    let r = catch_unwind(AssertUnwindSafe(|| ready.start(&mut r2, amount, &ctx, cfg)));
                    let mut ev = json!({"ev": "apply", "cb": limbs(cb as u128), "mb": limbs(mb as u128), "amt": amt(a)});
                    match r {
                        Ok(Ok((started, _msg))) => {
                            let t = Cust::Started(started).tree();
                            ev["out"] = json!("ok");
                            ev["ncb"] = limbs(t.u64_at("new_state.customer_balance").unwrap() as u128);
                            ev["nmb"] = limbs(t.u64_at("new_state.merchant_balance").unwrap() as u128);
                        }
                        Ok(Err((rdy, e))) => {
                            ev["out"] = json!(match e { Error::InsufficientFunds => "InsufficientFunds", Error::AmountTooLarge(_) => "AmountTooLarge" });
                            ev["unchanged"] = json!(Cust::Ready(rdy).to_bytes() == b);
                        }
                        Err(e) => ev["out"] = json!(format!("panic:{}", panic_message(e))),
                    }
                    out.push(ev);
                }
            }
        }
    }
    // the scalar encoding inside the proofs: an honest pay proof for amount a is accepted for a and
    // cleanly refused for every other wire-decodable amount, including i64::MIN (no panic)
    let (_b, ptree, nonce_b) = g.honest_pay_proof_pub(&info, 7);
    let nonce: zkabacus_crypto::Nonce = bincode::deserialize(&nonce_b).unwrap();
    for a in [7i64, 8, -7, 0, i64::MAX, -i64::MAX, i64::MIN, i64::MIN + 1] {
        let p: zkabacus_crypto::PayProof = bincode::deserialize(&ptree.bytes).unwrap();
        let amount: PaymentAmount = bincode::deserialize(&a.to_le_bytes()).unwrap();
        let mut r2 = seeded(seed, 93);
        let r = catch_unwind(AssertUnwindSafe(|| m.allow_payment(&mut r2, amount, &nonce, p, &info.ctx).is_some()));
        let o = match r { Ok(true) => "accepted".to_string(), Ok(false) => "refused".into(), Err(e) => format!("panic:{}", panic_message(e)) };
        out.push(json!({"ev": "encamt", "proved": amt(7), "claimed": amt(a), "out": o, "same": a == 7}));
    }
    // the same at the far end of the range: a refund of 2^63-1 on a channel (0, 2^63-1) is accepted for exactly that amount
    // and refused for the neighbouring wire-decodable amounts -2^63 (whose magnitude does not fit an i64) and -(2^63-2)
    {
        let big = i64::MAX;
        let info2 = g.honest_ready(0, big as u64, &[]);
        let started = g.honest_pay_proof_opt(&info2, -big);
        if started.is_none() {
            // the library refused an in-range refund: reported as a refused application (Ledger.tla says it succeeds)
            out.push(json!({"ev": "apply", "cb": limbs(0), "mb": limbs(big as u128), "amt": amt(-big), "out": "InsufficientFunds", "unchanged": true}));
        }
        let amounts: Vec<i64> = if started.is_some() { vec![-big, i64::MIN, -big + 1, big] } else { vec![] };
        let (_b2, ptree2, nonce_b2) = started.unwrap_or_else(|| g.honest_pay_proof_pub(&info, 7));
        let nonce2: zkabacus_crypto::Nonce = bincode::deserialize(&nonce_b2).unwrap();
        let m = g.world.mers[0];
        for a in amounts {
            let p: zkabacus_crypto::PayProof = bincode::deserialize(&ptree2.bytes).unwrap();
            let amount: PaymentAmount = bincode::deserialize(&a.to_le_bytes()).unwrap();
            let mut r2 = seeded(seed, 94);
            let r = catch_unwind(AssertUnwindSafe(|| m.allow_payment(&mut r2, amount, &nonce2, p, &info2.ctx).is_some()));
            let o = match r { Ok(true) => "accepted".to_string(), Ok(false) => "refused".into(), Err(e) => format!("panic:{}", panic_message(e)) };
            out.push(json!({"ev": "encamt", "proved": amt(-big), "claimed": amt(a), "out": o, "same": a == -big}));
        }
    }
    out
}
