//! Wire codecs (C15, C16): every serializable type of both crates, honest values, and encodings
//! obtained from them by replacing one atom with an invalid / boundary encoding, by altering a length
//! prefix or a tag, by truncating / extending, plus random strings.  Decoding runs in a worker
//! process with a tracking allocator, so panics, aborts and out-of-proportion allocations are data.
use crate::proto::World;
use crate::rec::Tree;
use crate::rngs::seeded;
use crate::util::panic_message;
use bls12_381::{G1Affine, G1Projective, G2Affine, G2Projective, Scalar};
use ff::Field;
use group::Group;
use rand::rngs::StdRng;
use rand::RngCore;
use serde::de::DeserializeOwned;
use serde::Serialize;
use serde_json::{json, Value};
use std::alloc::{GlobalAlloc, Layout, System};
use std::panic::{catch_unwind, AssertUnwindSafe};
use std::sync::atomic::{AtomicUsize, Ordering};
use zkabacus_crypto::CLOSE_SCALAR;
use zkchannels_crypto::pedersen::PedersenParameters;
use zkchannels_crypto::pointcheval_sanders::KeyPair;
use zkchannels_crypto::proofs::{
    ChallengeBuilder, CommitmentProofBuilder, RangeConstraintBuilder, RangeConstraintParameters,
    SignatureProofBuilder, SignatureRequestProofBuilder,
};
use zkchannels_crypto::{BlindingFactor, Message};

// ---------------------------------------------------------------- tracking allocator
pub struct Tracking;
static MAX_REQ: AtomicUsize = AtomicUsize::new(0);
/// requests above this size are refused (the process would be killed by the OOM killer otherwise);
/// a refused request makes the Rust runtime abort, which the parent process observes
const REFUSE_ABOVE: usize = 1 << 34;
unsafe impl GlobalAlloc for Tracking {
    unsafe fn alloc(&self, l: Layout) -> *mut u8 {
        MAX_REQ.fetch_max(l.size(), Ordering::Relaxed);
        if l.size() > REFUSE_ABOVE { return std::ptr::null_mut(); }
        System.alloc(l)
    }
    unsafe fn dealloc(&self, p: *mut u8, l: Layout) { System.dealloc(p, l) }
    unsafe fn realloc(&self, p: *mut u8, l: Layout, n: usize) -> *mut u8 {
        MAX_REQ.fetch_max(n, Ordering::Relaxed);
        if n > REFUSE_ABOVE { return std::ptr::null_mut(); }
        System.realloc(p, l, n)
    }
}

// ---------------------------------------------------------------- type registry
pub struct Ty {
    pub name: String,
    pub tree: Tree,
    /// decode; Ok(re-encoding) / Err
    pub decode: Box<dyn Fn(&[u8]) -> Result<Vec<u8>, String>>,
}
fn ty<T: Serialize + DeserializeOwned + 'static>(name: &str, v: &T) -> Ty {
    Ty { name: name.to_string(), tree: Tree::of(v),
         decode: Box::new(|b: &[u8]| bincode::deserialize::<T>(b).map(|x| bincode::serialize(&x).unwrap()).map_err(|e| e.to_string())) }
}

#[derive(Serialize, serde::Deserialize)]
struct VecG1(#[serde(with = "zkchannels_crypto::SerializeElement")] Vec<G1Affine>);
#[derive(Serialize, serde::Deserialize)]
struct VecScalar(#[serde(with = "zkchannels_crypto::SerializeElement")] Vec<Scalar>);
#[derive(Serialize, serde::Deserialize)]
struct ArrG2(#[serde(with = "zkchannels_crypto::SerializeElement")] [G2Affine; 3]);
#[derive(Serialize, serde::Deserialize)]
struct BoxArrScalar(#[serde(with = "zkchannels_crypto::SerializeElement")] Box<[Scalar; 4]>);

macro_rules! lib_n {
    ($n:literal, $rng:expr, $v:expr) => {{
        let rng: &mut StdRng = $rng;
        let kp = KeyPair::<$n>::new(rng);
        let pk = kp.public_key().clone();
        $v.push(ty(&format!("PublicKey<{}>", $n), &pk));
        $v.push(ty(&format!("KeyPair<{}>", $n), &kp));
        let p1 = PedersenParameters::<G1Projective, $n>::new(rng);
        let p2 = PedersenParameters::<G2Projective, $n>::new(rng);
        $v.push(ty(&format!("PedersenParameters<G1,{}>", $n), &p1));
        $v.push(ty(&format!("PedersenParameters<G2,{}>", $n), &p2));
        let msg = Message::<$n>::random(rng);
        let c = ChallengeBuilder::new().with_bytes(b"wire").finish();
        $v.push(ty(&format!("CommitmentProof<G1,{}>", $n), &CommitmentProofBuilder::<G1Projective, $n>::generate_proof_commitments(rng, msg.clone(), &[None; $n], &p1).generate_proof_response(c)));
        $v.push(ty(&format!("CommitmentProof<G2,{}>", $n), &CommitmentProofBuilder::<G2Projective, $n>::generate_proof_commitments(rng, msg.clone(), &[None; $n], &p2).generate_proof_response(c)));
        let sig = msg.sign(rng, &kp);
        $v.push(ty(&format!("SignatureProof<{}>", $n), &SignatureProofBuilder::<$n>::generate_proof_commitments(rng, msg.clone(), sig, &[None; $n], &pk).generate_proof_response(c)));
        $v.push(ty(&format!("SignatureRequestProof<{}>", $n), &SignatureRequestProofBuilder::<$n>::generate_proof_commitments(rng, msg.clone(), &[None; $n], &pk).generate_proof_response(c)));
        if $n == 3 {
            $v.push(ty("Signature", &sig));
            let bf = BlindingFactor::new(rng);
            $v.push(ty("BlindingFactor", &bf));
            $v.push(ty("BlindedSignature", &sig.blind_and_randomize(rng, bf)));
            $v.push(ty("BlindedMessage", &msg.blind(&pk, bf)));
            $v.push(ty("Commitment<G1>", &msg.commit(&p1, bf)));
            $v.push(ty("Commitment<G2>", &msg.commit(&p2, bf)));
        }
    }};
}

/// honest values of every serializable type of both crates
pub fn registry(seed: u64, big: bool) -> Vec<Ty> {
    let mut rng = seeded(seed, 101);
    let mut v: Vec<Ty> = vec![];
    lib_n!(1, &mut rng, v);
    lib_n!(3, &mut rng, v);
    lib_n!(5, &mut rng, v);
    if big { lib_n!(2, &mut rng, v); lib_n!(8, &mut rng, v); lib_n!(13, &mut rng, v); }
    // public element codecs
    v.push(ty("Vec<G1Affine> codec", &VecG1((0..3).map(|_| G1Affine::from(G1Projective::random(&mut rng))).collect())));
    v.push(ty("Vec<Scalar> codec", &VecScalar((0..5).map(|_| Scalar::random(&mut rng)).collect())));
    v.push(ty("[G2Affine; 3] codec", &ArrG2([G2Affine::from(G2Projective::random(&mut rng)), G2Affine::generator(), G2Affine::from(G2Projective::random(&mut rng))])));
    v.push(ty("Box<[Scalar; 4]> codec", &BoxArrScalar(Box::new([Scalar::one(), Scalar::random(&mut rng), Scalar::zero(), Scalar::random(&mut rng)]))));
    // zkAbacus: drive one channel through every stage and collect every value on the way
    let mut w = World::new(seed, 1);
    let m = w.mers[0];
    let (_pk, cp, rp) = m.extract_customer_config_parts();
    v.push(ty("RangeConstraintParameters", &rp));
    v.push(ty("CommitmentParameters", &cp));
    v.push(ty("customer::Config", &crate::proto::customer_config_of(m)));
    let rb = RangeConstraintBuilder::generate_constraint_commitments(123456789, &rp, &mut rng).unwrap();
    v.push(ty("RangeConstraint", &rb.generate_constraint_response(ChallengeBuilder::new().with_bytes(b"r").finish())));
    w.request(1, 1000, 77);
    use crate::proto::Cust;
    macro_rules! stage { ($name:literal, $variant:ident) => { if let Cust::$variant(x) = &w.chans[&1].cust { v.push(ty($name, x)); } }; }
    stage!("customer::Requested", Requested);
    let est: zkabacus_crypto::EstablishProof = bincode::deserialize(w.chans[&1].est.as_ref().unwrap()).unwrap();
    v.push(ty("EstablishProof", &est));
    w.minit(1);
    let cs: zkabacus_crypto::ClosingSignature = bincode::deserialize(&w.chans[&1].m2c.as_ref().unwrap().2).unwrap();
    v.push(ty("ClosingSignature", &cs));
    w.receive(1, "honest", None);
    stage!("customer::Inactive", Inactive);
    w.mactivate(1);
    let pt: zkabacus_crypto::PayToken = bincode::deserialize(&w.chans[&1].m2c.as_ref().unwrap().2).unwrap();
    v.push(ty("PayToken", &pt));
    w.receive(1, "honest", None);
    stage!("customer::Ready", Ready);
    w.start(1, 5);
    stage!("customer::Started", Started);
    let (nb, pb, _) = w.chans[&1].pay.clone().unwrap();
    v.push(ty("Nonce", &bincode::deserialize::<zkabacus_crypto::Nonce>(&nb).unwrap()));
    v.push(ty("PayProof", &bincode::deserialize::<zkabacus_crypto::PayProof>(&pb).unwrap()));
    w.mallow(1);
    w.receive(1, "honest", None);
    stage!("customer::Locked", Locked);
    let (pairb, bfb) = w.chans[&1].lockmsg.clone().unwrap();
    let pair: zkabacus_crypto::revlock::RevocationPair = bincode::deserialize(&pairb).unwrap();
    v.push(ty("RevocationLock", &pair.revocation_lock()));
    v.push(ty("RevocationSecret", &pair.revocation_secret()));
    v.push(ty("RevocationPair", &pair));
    v.push(ty("RevocationLockBlindingFactor", &bincode::deserialize::<zkabacus_crypto::revlock::RevocationLockBlindingFactor>(&bfb).unwrap()));
    w.close(1);
    let cmb = w.msgs.iter().rev().find(|x| x.2 == "close" && x.0 == "c2m").unwrap().3.clone();
    let cm: zkabacus_crypto::customer::ClosingMessage = bincode::deserialize(&cmb).unwrap();
    v.push(ty("ClosingMessage", &cm));
    let (csig, cstate) = cm.into_parts();
    v.push(ty("CloseStateSignature", &csig));
    v.push(ty("CloseState", &cstate));
    v.push(ty("CustomerBalance", &zkabacus_crypto::CustomerBalance::try_new(12345).unwrap()));
    v.push(ty("MerchantBalance", &zkabacus_crypto::MerchantBalance::try_new(i64::MAX as u64).unwrap()));
    v.push(ty("PaymentAmount", &zkabacus_crypto::PaymentAmount::pay_customer(17).unwrap()));
    v.push(ty("ChannelId", &w.chans[&1].cid));
    v.push(ty("CustomerRandomness", &zkabacus_crypto::CustomerRandomness::new(&mut rng)));
    v.push(ty("MerchantRandomness", &zkabacus_crypto::MerchantRandomness::new(&mut rng)));
    v.push(ty("Error", &zkabacus_crypto::Error::AmountTooLarge(5)));
    v
}

// ---------------------------------------------------------------- invalid / boundary encodings
const Q_LE: [u8; 32] = [0x01, 0x00, 0x00, 0x00, 0xff, 0xff, 0xff, 0xff, 0xfe, 0x5b, 0xfe, 0xff, 0x02, 0xa4, 0xbd, 0x53, 0x05, 0xd8, 0xa1, 0x09, 0x08, 0xd8, 0x39, 0x33, 0x48, 0x7d, 0x9d, 0x29, 0x53, 0xa7, 0xed, 0x73];

pub struct Classes {
    pub g1_off_curve: Vec<u8>,
    pub g1_off_subgroup: Vec<u8>,
    pub g2_off_curve: Vec<u8>,
    pub g2_off_subgroup: Vec<u8>,
}
pub fn classes(seed: u64) -> Classes {
    let mut rng = seeded(seed, 102);
    let mut c = Classes { g1_off_curve: vec![], g1_off_subgroup: vec![], g2_off_curve: vec![], g2_off_subgroup: vec![] };
    while c.g1_off_curve.is_empty() || c.g1_off_subgroup.is_empty() {
        let mut b = [0u8; 48];
        rng.fill_bytes(&mut b);
        b[0] = (b[0] & 0x1f) | 0x80;
        match Option::<G1Affine>::from(G1Affine::from_compressed_unchecked(&b)) {
            None => { if c.g1_off_curve.is_empty() { c.g1_off_curve = b.to_vec(); } }
            Some(p) => { if !bool::from(p.is_torsion_free()) && c.g1_off_subgroup.is_empty() { c.g1_off_subgroup = b.to_vec(); } }
        }
    }
    while c.g2_off_curve.is_empty() || c.g2_off_subgroup.is_empty() {
        let mut b = [0u8; 96];
        rng.fill_bytes(&mut b);
        b[0] = (b[0] & 0x1f) | 0x80;
        b[48] &= 0x1f;
        match Option::<G2Affine>::from(G2Affine::from_compressed_unchecked(&b)) {
            None => { if c.g2_off_curve.is_empty() { c.g2_off_curve = b.to_vec(); } }
            Some(p) => { if !bool::from(p.is_torsion_free()) && c.g2_off_subgroup.is_empty() { c.g2_off_subgroup = b.to_vec(); } }
        }
    }
    c
}

pub struct Case {
    pub ty: usize,
    pub desc: Value,
    pub bytes: Vec<u8>,
}

/// C15 cases: every atom x every class
pub fn cases_c15(tys: &[Ty], cl: &Classes, rng: &mut StdRng, sample: bool) -> Vec<Case> {
    let mut out = vec![];
    for (ti, t) in tys.iter().enumerate() {
        out.push(Case { ty: ti, desc: json!({"kind": "roundtrip"}), bytes: t.tree.bytes.clone() });
        // very large values (range parameters inside configurations, pay proofs inside nothing else): all leaves
        // in the thorough tier, first / last / every step-th leaf in the quick tier
        let nl = t.tree.leaves.len();
        let step = if sample && nl > 80 { nl / 40 } else { 1 };
        for (li, l) in t.tree.leaves.iter().enumerate() {
            if !(li % step == 0 || li < 6 || li + 6 >= nl) { continue; }
            let field = l.path.rsplit('.').next().unwrap_or("").to_string();
            let in_pair = l.path.contains("revocation_pair") || t.name == "RevocationPair";
            // the range invariant belongs to the public balance types, whatever newtype nesting serde shows
            let is_balance = l.kind == "u64" && (l.ty.contains("Balance") || field.ends_with("balance") || t.name.ends_with("Balance"));
            let sname = if is_balance { "Balance" } else { l.ty };
            let base = json!({"kind": "atom", "path": l.path, "struct": sname, "field": field, "in_pair": in_pair, "len": l.len, "leaf": l.kind});
            let mut alts: Vec<(&str, Vec<u8>)> = vec![];
            let orig = &t.tree.bytes[l.off..l.off + l.len];
            match (l.kind, l.len) {
                ("bytes", 48) => {
                    alts.push(("identity", G1Affine::identity().to_compressed().to_vec()));
                    alts.push(("off_curve", cl.g1_off_curve.clone()));
                    alts.push(("off_subgroup", cl.g1_off_subgroup.clone()));
                    alts.push(("x_not_reduced", { let mut b = vec![0xffu8; 48]; b[0] = 0x9f; b }));
                    alts.push(("uncompressed_flag", { let mut b = orig.to_vec(); b[0] &= 0x7f; b }));
                    alts.push(("other_valid", G1Affine::from(G1Projective::random(&mut *rng)).to_compressed().to_vec()));
                    // flag byte altered: every other pattern of the three flag bits over an all-zero body, and the
                    // infinity / uncompressed patterns over the honest body
                    for f in [0x00u8, 0x20, 0x40, 0x60, 0xa0, 0xe0] { let mut b = vec![0u8; 48]; b[0] = f; alts.push(("flag_combination", b)); }
                    { let mut b = vec![0u8; 48]; b[0] = 0xc0; b[47] = 1; alts.push(("flag_combination", b)); }
                    for f in [0x40u8, 0x60, 0xc0, 0xe0] { let mut b = orig.to_vec(); b[0] = (b[0] & 0x1f) | f; alts.push(("flag_combination", b)); }
                }
                ("bytes", 96) => {
                    alts.push(("identity", G2Affine::identity().to_compressed().to_vec()));
                    alts.push(("off_curve", cl.g2_off_curve.clone()));
                    alts.push(("off_subgroup", cl.g2_off_subgroup.clone()));
                    alts.push(("uncompressed_flag", { let mut b = orig.to_vec(); b[0] &= 0x7f; b }));
                    alts.push(("other_valid", G2Affine::from(G2Projective::random(&mut *rng)).to_compressed().to_vec()));
                    for f in [0x00u8, 0x20, 0x40, 0x60, 0xa0, 0xe0] { let mut b = vec![0u8; 96]; b[0] = f; alts.push(("flag_combination", b)); }
                    { let mut b = vec![0u8; 96]; b[0] = 0xc0; b[95] = 1; alts.push(("flag_combination", b)); }
                    for f in [0x40u8, 0x60, 0xc0, 0xe0] { let mut b = orig.to_vec(); b[0] = (b[0] & 0x1f) | f; alts.push(("flag_combination", b)); }
                }
                ("bytes", 32) => {
                    alts.push(("noncanonical", Q_LE.to_vec()));
                    alts.push(("noncanonical", { let mut b = Q_LE; b[0] = 2; b.to_vec() }));
                    alts.push(("noncanonical", vec![0xff; 32]));
                    alts.push(("zero", vec![0; 32]));
                    alts.push(("close_tag", CLOSE_SCALAR.to_bytes().to_vec()));
                    alts.push(("q_minus_1", (-Scalar::one()).to_bytes().to_vec()));
                    alts.push(("other_valid", Scalar::random(&mut *rng).to_bytes().to_vec()));
                }
                ("u64", 8) => {
                    alts.push(("two_pow_63", (1u64 << 63).to_le_bytes().to_vec()));
                    alts.push(("u64_max", u64::MAX.to_le_bytes().to_vec()));
                    alts.push(("two_pow_63_minus_1", (i64::MAX as u64).to_le_bytes().to_vec()));
                    alts.push(("zero", 0u64.to_le_bytes().to_vec()));
                }
                ("i64", 8) => {
                    alts.push(("two_pow_63", i64::MIN.to_le_bytes().to_vec()));
                    alts.push(("u64_max", (-1i64).to_le_bytes().to_vec()));
                }
                ("u8", 1) => {
                    // (the only u8 leaves are revocation-secret indices) neighbours and the ends of the range
                    for v in [orig[0].wrapping_add(1), 255, 254, 0, 128] { alts.push(("other_valid", vec![v])); }
                }
                ("len", 8) if !t.name.contains("Vec<") => {
                    // fixed-length arrays: any other element count is a different, non-canonical encoding
                    let mut a = [0u8; 8];
                    a.copy_from_slice(orig);
                    let n = u64::from_le_bytes(a);
                    for v in [n + 1, n.wrapping_sub(1), 0, n + 2, 1 << 40, u64::MAX] { alts.push(("len_other", v.to_le_bytes().to_vec())); }
                }
                ("tag", 4) => { alts.push(("tag_out_of_range", 7u32.to_le_bytes().to_vec())); alts.push(("other_valid", 1u32.to_le_bytes().to_vec())); }
                _ => {}
            }
            for (class, nb) in alts {
                if nb == orig { continue; }
                let mut b = t.tree.bytes.clone();
                b[l.off..l.off + l.len].copy_from_slice(&nb);
                let mut d = base.clone();
                d["class"] = json!(class);
                out.push(Case { ty: ti, desc: d, bytes: b });
            }
        }
    }
    out
}

/// C16 cases: length prefixes, truncation, extension, random strings
pub fn cases_c16(tys: &[Ty], rng: &mut StdRng, nrandom: usize) -> Vec<Case> {
    let mut out = vec![];
    for (ti, t) in tys.iter().enumerate() {
        let n = t.tree.bytes.len();
        for l in t.tree.leaves.iter().filter(|l| l.kind == "len") {
            let mut a = [0u8; 8];
            a.copy_from_slice(&t.tree.bytes[l.off..l.off + 8]);
            let cur = u64::from_le_bytes(a);
            // element size = size of the first element following the prefix
            let prefix = l.path.trim_end_matches("len").to_string();
            let elem = t.tree.leaves.iter().find(|x| x.path == format!("{}0", prefix)).map(|x| (x.off, x.len));
            for (name, val) in [("0", 0u64), ("n-1", cur.wrapping_sub(1)), ("n+1", cur + 1), ("2^32", 1 << 32), ("2^60", 1 << 60), ("2^64-1", u64::MAX), ("n", cur)] {
                let mut b = t.tree.bytes.clone();
                b[l.off..l.off + 8].copy_from_slice(&val.to_le_bytes());
                out.push(Case { ty: ti, desc: json!({"kind": "len", "path": l.path, "class": name, "extended": false}), bytes: b.clone() });
                // payload extended by valid elements so that the announced count can actually be read
                if let Some((eo, el)) = elem {
                    let ebytes = t.tree.bytes[eo..eo + el].to_vec();
                    if name == "n+1" {
                        let mut b2 = b.clone();
                        let at = eo + el * cur as usize;
                        b2.splice(at..at, ebytes.iter().cloned());
                        out.push(Case { ty: ti, desc: json!({"kind": "len", "path": l.path, "class": name, "extended": true}), bytes: b2 });
                    }
                    if (name == "2^32" || name == "2^60" || name == "2^64-1") && el == 32 || (name == "2^60" && t.name.contains("codec")) {
                        // a long run of valid elements behind a hostile prefix (more than any sane pre-allocation cap)
                        let mut b2 = b[..eo].to_vec();
                        for _ in 0..4100 { b2.extend_from_slice(&ebytes); }
                        out.push(Case { ty: ti, desc: json!({"kind": "len", "path": l.path, "class": name, "extended": true, "elements": 4100}), bytes: b2 });
                    }
                }
            }
        }
        // truncation at every leaf boundary and in the middle of every leaf (capped for very large values)
        let step = (t.tree.leaves.len() / 40).max(1);
        for (i, l) in t.tree.leaves.iter().enumerate() {
            if i % step != 0 { continue; }
            for cut in [l.off, l.off + l.len / 2] {
                if cut < n { out.push(Case { ty: ti, desc: json!({"kind": "truncate", "at": cut}), bytes: t.tree.bytes[..cut].to_vec() }); }
            }
        }
        out.push(Case { ty: ti, desc: json!({"kind": "truncate", "at": n - 1}), bytes: t.tree.bytes[..n - 1].to_vec() });
        out.push(Case { ty: ti, desc: json!({"kind": "truncate", "at": 0}), bytes: vec![] });
        let mut e = t.tree.bytes.clone();
        e.push(0);
        out.push(Case { ty: ti, desc: json!({"kind": "extend", "by": 1}), bytes: e });
        for k in 0..nrandom {
            let len = match k % 4 { 0 => n, 1 => n / 2 + 1, 2 => 8, _ => (rng.next_u32() as usize % (n + 16)) + 1 };
            let mut b = vec![0u8; len];
            rng.fill_bytes(&mut b);
            // half of the random strings keep the honest prefix (so that decoding gets deep)
            if k % 2 == 0 { let keep = (rng.next_u32() as usize) % n.min(len); b[..keep].copy_from_slice(&t.tree.bytes[..keep]); }
            out.push(Case { ty: ti, desc: json!({"kind": "random", "len": len}), bytes: b });
        }
    }
    out
}

/// worker: decode cases [start..) one by one, flushing a begin marker before each
pub fn worker(which: &str, seed: u64, thorough: bool, start: usize, out_path: &str, modulus: usize, rem: usize) {
    use std::io::Write;
    let tys = registry(seed, thorough);
    let cl = classes(seed);
    let mut rng = seeded(seed, 103);
    let cases = if which == "c15" { cases_c15(&tys, &cl, &mut rng, !thorough) } else { cases_c16(&tys, &mut rng, if thorough { 400 } else { 30 }) };
    let mut f = std::fs::OpenOptions::new().create(true).append(true).open(out_path).unwrap();
    for (k, c) in cases.iter().enumerate().skip(start) {
        if k % modulus != rem { continue; }
        writeln!(f, "{}", json!({"begin": k})).unwrap();
        f.flush().unwrap();
        MAX_REQ.store(0, Ordering::Relaxed);
        let t = &tys[c.ty];
        let r = catch_unwind(AssertUnwindSafe(|| (t.decode)(&c.bytes)));
        let max_alloc = MAX_REQ.load(Ordering::Relaxed);
        let (out, reenc) = match r {
            Ok(Ok(b)) => ("ok".to_string(), b == c.bytes || (c.bytes.len() > b.len() && b[..] == c.bytes[..b.len()])),
            Ok(Err(_)) => ("err".to_string(), false),
            Err(e) => (format!("panic:{}", panic_message(e)), false),
        };
        let mut ev = c.desc.clone();
        ev["ev"] = json!(which);
        ev["case"] = json!(k);
        ev["type"] = json!(t.name);
        ev["out"] = json!(out);
        ev["reencodes"] = json!(reenc);
        ev["input_len"] = json!(c.bytes.len());
        ev["max_alloc"] = json!(max_alloc);
        ev["alloc_in_proportion"] = json!(max_alloc <= 64 * c.bytes.len() + (1 << 20));
        writeln!(f, "{}", ev).unwrap();
    }
    writeln!(f, "{}", json!({"done": cases.len()})).unwrap();
}

/// parent: K worker processes (case index modulo K); a worker that dies marks its current case as aborted and is restarted
/// The same decoders through a HUMAN-READABLE serde format (JSON): hostile texts - strings of the byte lengths a text
/// codec could expect with multi-byte characters across even offsets, wrong shapes, huge numbers - give a value or an
/// error, never a panic (run in-process under catch_unwind: nothing here allocates in proportion to a length prefix).
fn text_format_cases() -> Vec<Value> {
    use std::panic::{catch_unwind, AssertUnwindSafe};
    let mut texts: Vec<String> = vec![];
    for n in [64usize, 96, 192, 63, 65] {
        let mut s = String::from("0\u{e9}");
        while s.len() < n { s.push('0'); }
        texts.push(format!("\"{}\"", s));
        let mut s2 = String::new();
        while s2.len() + 3 <= n { s2.push('\u{20ac}'); }
        while s2.len() < n { s2.push('f'); }
        texts.push(format!("\"{}\"", s2));
        texts.push(format!("\"{}\"", "ab".repeat(n / 2)));
    }
    texts.extend(["[]", "[1,2,3]", "\"\"", "null", "{}", "123456789012345678901234567890", "[[0]]", "{\"sigma1\":\"00\",\"sigma2\":\"00\"}", "-1", "[256]"].iter().map(|s| s.to_string()));
    fn one<T: serde::de::DeserializeOwned>(ty: &str, text: &str) -> Value {
        let r = catch_unwind(AssertUnwindSafe(|| serde_json::from_str::<T>(text).is_ok()));
        let out = match r { Ok(true) => "ok".to_string(), Ok(false) => "err".to_string(), Err(e) => format!("panic:{}", crate::util::panic_message(e)) };
        json!({"ev": "c16", "case": 0, "kind": "text", "type": ty, "text_len": text.len(), "out": out, "reencodes": true, "input_len": text.len(), "max_alloc": 0, "alloc_in_proportion": true})
    }
    let mut out = vec![];
    for t in &texts {
        out.push(one::<BlindingFactor>("BlindingFactor (JSON)", t));
        out.push(one::<zkchannels_crypto::pointcheval_sanders::Signature>("Signature (JSON)", t));
        out.push(one::<zkchannels_crypto::pointcheval_sanders::PublicKey<1>>("PublicKey<1> (JSON)", t));
        out.push(one::<zkabacus_crypto::Nonce>("Nonce (JSON)", t));
        out.push(one::<zkabacus_crypto::revlock::RevocationPair>("RevocationPair (JSON)", t));
        out.push(one::<zkabacus_crypto::ChannelId>("ChannelId (JSON)", t));
    }
    out
}

pub fn parent(which: &str, seed: u64, thorough: bool, out_path: &str) {
    const K: usize = 8;
    let exe = std::env::current_exe().unwrap();
    let mut handles = vec![];
    for j in 0..K {
        let (exe, which, out_path) = (exe.clone(), which.to_string(), out_path.to_string());
        handles.push(std::thread::spawn(move || {
            let tmp = format!("{}.worker{}", out_path, j);
            let _ = std::fs::remove_file(&tmp);
            let mut start = 0usize;
            let mut aborted: Vec<(usize, String)> = vec![];
            for _round in 0..100 {
                let st = std::process::Command::new(&exe).args(["wire-worker", "--which", &which, "--seed", &seed.to_string(), "--tier", if thorough { "thorough" } else { "quick" },
                                                                 "--start", &start.to_string(), "--out", &tmp, "--mod", &K.to_string(), "--rem", &j.to_string()]).status().unwrap();
                let txt = std::fs::read_to_string(&tmp).unwrap_or_default();
                if txt.lines().any(|l| l.contains("\"done\"")) { break; }
                let last_begin = txt.lines().filter_map(|l| serde_json::from_str::<Value>(l).ok()).filter_map(|v| v["begin"].as_u64()).last().unwrap_or(start as u64) as usize;
                aborted.push((last_begin, format!("{:?}", st)));
                start = last_begin + 1;
            }
            let txt = std::fs::read_to_string(&tmp).unwrap_or_default();
            let mut events: Vec<Value> = txt.lines().filter_map(|l| serde_json::from_str::<Value>(l).ok()).filter(|v| v.get("ev").is_some()).collect();
            for (k, st) in aborted {
                events.push(json!({"ev": which, "case": k, "kind": "aborted", "type": "?", "out": format!("abort:{}", st), "reencodes": false, "input_len": 0, "max_alloc": 0, "alloc_in_proportion": false}));
            }
            let _ = std::fs::remove_file(&tmp);
            events
        }));
    }
    let mut events: Vec<Value> = vec![];
    for h in handles { events.extend(h.join().expect("wire parent thread")); }
    events.sort_by_key(|e| e["case"].as_u64().unwrap_or(0));
    if which == "c16" {
        events.extend(text_format_cases());
    }
    let mut f = std::io::BufWriter::new(std::fs::File::create(out_path).unwrap());
    use std::io::Write;
    for e in events { writeln!(f, "{}", e).unwrap(); }
}
