//! Random generators used by the harness: seeded (reproducible) and scripted (chosen draws).
use bls12_381::Scalar;
use rand::{rngs::StdRng, CryptoRng, RngCore, SeedableRng};

pub fn seeded(seed: u64, stream: u64) -> StdRng {
    let mut s = [0u8; 32];
    s[..8].copy_from_slice(&seed.to_le_bytes());
    s[8..16].copy_from_slice(&stream.to_le_bytes());
    s[16..24].copy_from_slice(b"zkverif!");
    StdRng::from_seed(s)
}

/// What a scripted draw should produce.
#[derive(Debug, Clone, Copy, PartialEq)]
pub enum Draw {
    /// all-zero bytes: `Scalar::random` yields 0, `Fp::random` yields 0
    Zero,
    /// bytes for which `Scalar::from_bytes_wide` yields exactly this scalar
    Scalar([u8; 32]),
    /// seeded random bytes
    Generic,
}

/// A `RngCore + CryptoRng` that serves `fill_bytes` calls from a script (one entry per call,
/// whatever its width) and falls back to seeded random bytes when the script is exhausted.
/// It counts calls by width so that the number of scalar draws (64-byte calls) is observable.
pub struct Scripted {
    pub script: Vec<Draw>,
    pub pos: usize,
    pub calls: Vec<usize>,
    /// the bytes served for every 64-byte call (a scalar draw), in order
    pub drawn: Vec<[u8; 64]>,
    fallback: StdRng,
    /// when set, only 64-byte calls (scalar draws) consume script entries
    pub scalar_only: bool,
}

impl Scripted {
    pub fn new(script: Vec<Draw>, seed: u64) -> Self {
        Scripted { script, pos: 0, calls: vec![], drawn: vec![], fallback: seeded(seed, 0x5c), scalar_only: true }
    }
    pub fn scalar_draws(&self) -> usize {
        self.calls.iter().filter(|&&w| w == 64).count()
    }
}

/// 64 little-endian bytes whose `from_bytes_wide` reduction is exactly `s` (the value itself,
/// zero-extended: it is already < q).
pub fn wide_bytes_of(s: &Scalar) -> [u8; 64] {
    let mut w = [0u8; 64];
    w[..32].copy_from_slice(&s.to_bytes());
    w
}

impl RngCore for Scripted {
    fn next_u32(&mut self) -> u32 {
        let mut b = [0u8; 4];
        self.fill_bytes(&mut b);
        u32::from_le_bytes(b)
    }
    fn next_u64(&mut self) -> u64 {
        let mut b = [0u8; 8];
        self.fill_bytes(&mut b);
        u64::from_le_bytes(b)
    }
    fn fill_bytes(&mut self, dest: &mut [u8]) {
        self.calls.push(dest.len());
        let scripted = !self.scalar_only || dest.len() == 64;
        let d = if scripted && self.pos < self.script.len() {
            let d = self.script[self.pos];
            self.pos += 1;
            d
        } else {
            Draw::Generic
        };
        match d {
            Draw::Zero => dest.iter_mut().for_each(|b| *b = 0),
            Draw::Scalar(s) => {
                dest.iter_mut().for_each(|b| *b = 0);
                let n = dest.len().min(32);
                dest[..n].copy_from_slice(&s[..n]);
            }
            Draw::Generic => self.fallback.fill_bytes(dest),
        }
        if dest.len() == 64 {
            let mut a = [0u8; 64];
            a.copy_from_slice(dest);
            self.drawn.push(a);
        }
    }
    fn try_fill_bytes(&mut self, dest: &mut [u8]) -> Result<(), rand::Error> {
        self.fill_bytes(dest);
        Ok(())
    }
}
impl CryptoRng for Scripted {}

/// either a seeded or a scripted generator behind one concrete type
pub enum AnyRng {
    Std(StdRng),
    Script(Scripted),
    /// a generator whose byte interface is random but whose word-sized draws are CONSTANT and whose fallible
    /// interface always fails: code that forks a local generator from `next_u64`, or falls back to a default when
    /// `try_fill_bytes` fails, loses its randomness under it (the library as specified uses `fill_bytes` only)
    Frugal(StdRng),
}
impl RngCore for AnyRng {
    fn next_u32(&mut self) -> u32 { match self { AnyRng::Std(r) => r.next_u32(), AnyRng::Script(r) => r.next_u32(), AnyRng::Frugal(_) => 0x0101_0101 } }
    fn next_u64(&mut self) -> u64 { match self { AnyRng::Std(r) => r.next_u64(), AnyRng::Script(r) => r.next_u64(), AnyRng::Frugal(_) => 0x0101_0101_0101_0101 } }
    fn fill_bytes(&mut self, d: &mut [u8]) { match self { AnyRng::Std(r) => r.fill_bytes(d), AnyRng::Script(r) => r.fill_bytes(d), AnyRng::Frugal(r) => r.fill_bytes(d) } }
    fn try_fill_bytes(&mut self, d: &mut [u8]) -> Result<(), rand::Error> {
        if let AnyRng::Frugal(_) = self { return Err(rand::Error::new("the fallible interface of this generator always fails")); }
        self.fill_bytes(d);
        Ok(())
    }
}
impl CryptoRng for AnyRng {}
