//! The commitment-scalar space of the composite proofs (zero knowledge of the Schnorr responses, necessary and
//! sufficient condition in the model Hiding.tla): a response is z_i = c * m_i + t_i; the merchant learns nothing
//! about the hidden values iff the vector t is uniform on a space V that contains every direction in which the
//! hidden values can vary.  By design V is cut out by the LINKS between sub-proofs only (slots that hide the same
//! value - or values at a public distance - share their commitment scalar; the digit scalars of a range constraint
//! sum, with weights 128^j, to the scalar of the value) and has one free dimension per independently hidden value.
//! The harness knows the hidden values, recovers t_i = z_i - c * m_i from honest proofs of the library's own prover
//! and reports (a) whether the designed links hold and (b) the rank of the observed t-vectors.
use crate::game::GameEnv;
use crate::indep;
use crate::proto::{customer_config_of, Cust};
use crate::rec::Tree;
use bls12_381::Scalar;
use ff::Field;
use serde_json::{json, Value};
use zkabacus_crypto::{customer, ChannelId, Context, CustomerBalance, MerchantBalance, PaymentAmount, CLOSE_SCALAR};
use zkchannels_crypto::proofs::verif_hooks::take_challenge_log;

/// rank of a matrix over the scalar field (Gaussian elimination)
fn rank(mut rows: Vec<Vec<Scalar>>) -> usize {
    let n = rows.first().map(|r| r.len()).unwrap_or(0);
    let mut r = 0usize;
    for col in 0..n {
        let piv = (r..rows.len()).find(|&i| rows[i][col] != Scalar::zero());
        let p = match piv { Some(p) => p, None => continue };
        rows.swap(r, p);
        let inv = Option::<Scalar>::from(rows[r][col].invert()).unwrap();
        for j in col..n { let v = rows[r][j] * inv; rows[r][j] = v; }
        for i in 0..rows.len() {
            if i != r && rows[i][col] != Scalar::zero() {
                let f = rows[i][col];
                for j in col..n { let v = rows[i][j] - f * rows[r][j]; rows[i][j] = v; }
            }
        }
        r += 1;
        if r == rows.len() { break; }
    }
    r
}

fn sc_at(t: &Tree, path: &str) -> Scalar {
    indep::sc(t.bytes_at(path).unwrap_or_else(|| panic!("no leaf {}", path))).unwrap_or_else(|| panic!("leaf {} is not a scalar", path))
}
fn digits(mut v: u64) -> Vec<Scalar> {
    let mut d = vec![];
    for _ in 0..9 { d.push(Scalar::from(v % 128)); v /= 128; }
    d
}
fn cid_scalar(b: &[u8]) -> Scalar {
    let l = |i: usize| { let mut a = [0u8; 8]; a.copy_from_slice(&b[8 * i..8 * i + 8]); u64::from_le_bytes(a) };
    Scalar::from_raw([l(0), l(1), l(2), l(3)])
}

pub fn run(seed: u64, thorough: bool) -> Vec<Value> {
    let mut out = vec![];
    let mut g = GameEnv::new(seed);
    // ------------------------------------------------------------------ establish: 10 slots, designed dimension 6
    {
        let m = g.world.mers[0];
        let cfg = customer_config_of(m);
        let pk = m.signing_keypair().public_key().clone();
        let k = if thorough { 40 } else { 14 };
        let mut rows = vec![];
        let mut links = true;
        for i in 0..k {
            let mut rng = crate::rngs::seeded(seed.wrapping_add(i as u64), 411);
            let cid = {
                use zkabacus_crypto::{CustomerRandomness, MerchantRandomness};
                ChannelId::new(MerchantRandomness::new(&mut rng), CustomerRandomness::new(&mut rng), &pk, b"m", b"c")
            };
            let (cbv, mbv) = (10 + 3 * i as u64, 1000 - 7 * i as u64);
            let ctx = Context::new(b"hiding establish");
            let _ = take_challenge_log();
            let (req, proof) = customer::Requested::new(&mut rng, &cfg, cid, MerchantBalance::try_new(mbv).unwrap(), CustomerBalance::try_new(cbv).unwrap(), &ctx);
            let c = match take_challenge_log().into_iter().last().and_then(|e| indep::sc(&e.1)) { Some(c) => c, None => continue };
            let rt = Cust::Requested(req).tree();
            let pt = Tree::of(&proof);
            let cids = cid_scalar(&cid.to_bytes());
            let (nonce, lock) = (sc_at(&rt, "state.nonce"), sc_at(&rt, "state.revocation_pair.lock"));
            let ms = [cids, nonce, lock, Scalar::from(cbv), Scalar::from(mbv)];
            let mc = [cids, CLOSE_SCALAR, lock, Scalar::from(cbv), Scalar::from(mbv)];
            let mut t = vec![];
            for j in 0..5 { t.push(sc_at(&pt, &format!("state_proof.commitment_proof.message_response_scalars.{}", j)) - c * ms[j]); }
            for j in 0..5 { t.push(sc_at(&pt, &format!("close_state_proof.commitment_proof.message_response_scalars.{}", j)) - c * mc[j]); }
            links = links && t[5] == t[0] && t[7] == t[2] && t[8] == t[3] && t[9] == t[4];
            rows.push(t);
        }
        let n = rows.len();
        out.push(json!({"ev": "hiding", "proof": "establish", "samples": n, "slots": 10, "links_hold": links, "rank": rank(rows)}));
    }
    // ------------------------------------------------------------------ pay: 34 slots, designed dimension 24
    {
        let info = g.honest_ready(5000, 3000, &[]);
        let k = if thorough { 60 } else { 38 };
        let mut rows = vec![];
        let mut links = true;
        for i in 0..k {
            let amount: i64 = if i % 2 == 0 { 1 + i as i64 * 13 } else { -(2 + i as i64 * 11) };
            let mut rng = crate::rngs::seeded(seed.wrapping_add(1000 + i as u64), 412);
            let c0 = &g.world.chans[&info.ch];
            let cfg = &g.world.ccfgs[c0.mer];
            let ready = match Cust::from_bytes("ready", &c0.cust.to_bytes()) { Ok(Cust::Ready(r)) => r, _ => continue };
            let amt: PaymentAmount = bincode::deserialize(&amount.to_le_bytes()).unwrap();
            let _ = take_challenge_log();
            let (started, msg) = match ready.start(&mut rng, amt, &info.ctx, cfg) { Ok(x) => x, Err(_) => continue };
            let c = match take_challenge_log().into_iter().last().and_then(|e| indep::sc(&e.1)) { Some(c) => c, None => continue };
            let st = Cust::Started(started).tree();
            let pt = Tree::of(&msg.pay_proof);
            let (ncb, nmb) = (st.u64_at("new_state.customer_balance").unwrap(), st.u64_at("new_state.merchant_balance").unwrap());
            let (nn, nl) = (sc_at(&st, "new_state.nonce"), sc_at(&st, "new_state.revocation_pair.lock"));
            let old = info.old;
            let mst = [old[0], nn, nl, Scalar::from(ncb), Scalar::from(nmb)];
            let mcl = [old[0], CLOSE_SCALAR, nl, Scalar::from(ncb), Scalar::from(nmb)];
            let mut t = vec![];
            for j in 0..5 { t.push(sc_at(&pt, &format!("old_pay_token_proof.commitment_proof.message_response_scalars.{}", j)) - c * old[j]); }
            t.push(sc_at(&pt, "old_revocation_lock_proof.message_response_scalars.0") - c * old[2]);
            for j in 0..5 { t.push(sc_at(&pt, &format!("state_proof.commitment_proof.message_response_scalars.{}", j)) - c * mst[j]); }
            for j in 0..5 { t.push(sc_at(&pt, &format!("close_state_proof.commitment_proof.message_response_scalars.{}", j)) - c * mcl[j]); }
            for (name, v) in [("customer_balance_proof", ncb), ("merchant_balance_proof", nmb)] {
                let d = digits(v);
                for j in 0..9 { t.push(sc_at(&pt, &format!("{}.digit_proofs.{}.commitment_proof.message_response_scalars.0", name, j)) - c * d[j]); }
            }
            // slots: pt 0..4, rl 5, st 6..10, cl 11..15, customer digits 16..24, merchant digits 25..33
            let wsum = |lo: usize| -> Scalar { let mut s = Scalar::zero(); let mut p = Scalar::one(); for j in 0..9 { s += p * t[lo + j]; p *= Scalar::from(128u64); } s };
            links = links && t[6] == t[0] && t[11] == t[6]                 // channel id: token, state, close state
                && t[5] == t[2]                                            // old lock: commitment and token
                && t[13] == t[8]                                           // new lock: state and close state
                && t[9] == t[3] && t[14] == t[9] && wsum(16) == t[9]       // customer balance
                && t[10] == t[4] && t[15] == t[10] && wsum(25) == t[10];   // merchant balance
            rows.push(t);
        }
        let n = rows.len();
        out.push(json!({"ev": "hiding", "proof": "pay", "samples": n, "slots": 34, "links_hold": links, "rank": rank(rows)}));
    }
    out
}
