//! Adversarial prover for the composite zkAbacus proofs (EstablishProof, PayProof), built purely
//! on the public zkchannels-crypto API (proof builders, ChallengeBuilder, Message) plus the wire
//! layout discovered by the recording serializer.  It executes strategies of the forger family
//! (honest-but-lying, cross-slot substitution, per-relation violation, post-challenge choice of
//! non-response fields) against the real merchant and logs, per submitted proof, the verdict, the
//! truth value of every relation of the specified verifier (evaluated independently), whether the
//! statement is true for the hidden values, and - on acceptance - what the returned blind
//! signatures unblind to.  Events are validated by TLC against Trace_Game.tla.
use crate::indep::{self, Cp, Pk, Sp};
use crate::proto::{customer_config_of, Cust, World};
use crate::rec::Tree;
use crate::rngs::seeded;
use crate::util::hex;
use bls12_381::{G1Affine, G1Projective, G2Affine, G2Projective, Scalar};
use ff::Field;
use rand::rngs::StdRng;
use serde_json::{json, Value};
use zkabacus_crypto::{
    customer, merchant, ChannelId, ClosingSignature, Context, CustomerBalance, EstablishProof,
    MerchantBalance, Nonce, PayProof, PayToken, PaymentAmount, CLOSE_SCALAR,
};
use zkchannels_crypto::pointcheval_sanders::Signature;
use zkchannels_crypto::proofs::verif_hooks::take_challenge_log;
use zkchannels_crypto::proofs::{
    Challenge, ChallengeBuilder, CommitmentProofBuilder, RangeConstraintBuilder,
    SignatureProofBuilder, SignatureRequestProofBuilder,
};
use zkchannels_crypto::{BlindingFactor, Message};

pub fn cid_scalar(cid: &ChannelId) -> Scalar {
    let b = cid.to_bytes();
    let l = |i: usize| {
        let mut a = [0u8; 8];
        a.copy_from_slice(&b[8 * i..8 * i + 8]);
        u64::from_le_bytes(a)
    };
    Scalar::from_raw([l(0), l(1), l(2), l(3)])
}

/// the Challenge object the verifier derived for the transcript it hashed (same bytes, same hash)
pub fn challenge_from_transcript(t: &[u8]) -> Challenge {
    let c = ChallengeBuilder::new().with_bytes(t).finish();
    let _ = take_challenge_log();
    c
}

fn sbytes(s: &Scalar) -> [u8; 32] {
    s.to_bytes()
}

/// overwrite the leaf at `path` of a serialized value (layout taken from `tree`)
pub fn patch(bytes: &mut [u8], tree: &Tree, path: &str, new: &[u8]) {
    let l = tree.get(path).unwrap_or_else(|| panic!("no leaf {}", path));
    assert_eq!(l.len, new.len(), "leaf {} has length {}", path, l.len);
    bytes[l.off..l.off + l.len].copy_from_slice(new);
}
pub fn patch_span(bytes: &mut [u8], tree: &Tree, prefix: &str, new: &[u8]) {
    let (lo, hi) = tree.span(prefix).unwrap_or_else(|| panic!("no subtree {}", prefix));
    assert_eq!(hi - lo, new.len(), "subtree {} has length {}", prefix, hi - lo);
    bytes[lo..hi].copy_from_slice(new);
}

fn dev(base: &[Scalar; 5], d: &Value, rng: &mut StdRng) -> [Scalar; 5] {
    let mut out = *base;
    if let Some(a) = d.as_array() {
        for (i, x) in a.iter().enumerate().take(5) {
            let x = x.as_str().unwrap_or("ok");
            if x == "plus1" {
                out[i] = base[i] + Scalar::one();
            } else if x == "minus1" {
                out[i] = base[i] - Scalar::one();
            } else if x == "fresh" {
                out[i] = Scalar::random(&mut *rng);
            } else if let Some(j) = x.strip_prefix("slot:") {
                out[i] = base[j.parse::<usize>().unwrap()];
            } else if let Some(v) = x.strip_prefix("val:") {
                // small signed integer offset given explicitly
                let n: i64 = v.parse().unwrap();
                out[i] = if n >= 0 { Scalar::from(n as u64) } else { -Scalar::from(n.unsigned_abs()) };
            }
        }
    }
    out
}

pub struct GameEnv {
    pub world: World,
    pub seed: u64,
    pub counter: u64,
}

/// last (transcript, challenge) pair the verifier recorded
fn last_challenge() -> Option<(Vec<u8>, Scalar)> {
    let log = take_challenge_log();
    let (t, c) = log.into_iter().last()?;
    let cs = indep::sc(&c)?;
    Some((t, cs))
}

impl GameEnv {
    pub fn new(seed: u64) -> GameEnv {
        GameEnv { world: World::new(seed, 2), seed, counter: 0 }
    }
    fn rng(&mut self, stream: u64) -> StdRng {
        self.counter += 1;
        seeded(self.seed.wrapping_add(self.counter.wrapping_mul(0x9e37_79b9)), stream)
    }

    // ================================================================== Establish

    /// Execute one establish strategy against merchant::Config::initialize.
    pub fn establish(&mut self, st: &Value) -> Value {
        let mut rng = self.rng(1);
        let m: &'static merchant::Config = self.world.mers[0];
        let cfg = customer_config_of(m);
        let pk = m.signing_keypair().public_key().clone();
        let pkv = Pk::from_tree(&Tree::of(&pk), "").expect("public key view");
        // agreed public values
        let cbv = st["cb"].as_u64().unwrap_or(10);
        let mbv = st["mb"].as_u64().unwrap_or(1000);
        let cb = CustomerBalance::try_new(cbv).unwrap();
        let mb = MerchantBalance::try_new(mbv).unwrap();
        let cid = {
            use zkabacus_crypto::{CustomerRandomness, MerchantRandomness};
            ChannelId::new(MerchantRandomness::new(&mut rng), CustomerRandomness::new(&mut rng), &pk, b"m", b"c")
        };
        let ctx = Context::new(b"establish game");
        let nonce = Scalar::random(&mut rng);
        let lock = Scalar::random(&mut rng);
        let base_state = [cid_scalar(&cid), nonce, lock, Scalar::from(cbv), Scalar::from(mbv)];
        let base_close = [cid_scalar(&cid), CLOSE_SCALAR, lock, Scalar::from(cbv), Scalar::from(mbv)];
        let hs = dev(&base_state, &st["hs"], &mut rng);
        let hc = dev(&base_close, &st["hc"], &mut rng);
        // statement truth for the hidden values (slot 1 of the state, the nonce, is free)
        let truth = hs[0] == base_state[0] && hs[3] == base_state[3] && hs[4] == base_state[4]
            && hc[0] == base_close[0] && hc[1] == CLOSE_SCALAR && hc[3] == base_close[3] && hc[4] == base_close[4]
            && hs[2] == hc[2];
        let unlink: Vec<usize> = st["unlink"].as_array().map(|a| a.iter().map(|x| x.as_u64().unwrap() as usize).collect()).unwrap_or_default();

        // first message
        let sb = SignatureRequestProofBuilder::generate_proof_commitments(&mut rng, Message::new(hs), &[None; 5], &pk);
        let cs = *sb.conjunction_commitment_scalars();
        let mut link = [Some(cs[0]), None, Some(cs[2]), Some(cs[3]), Some(cs[4])];
        for &i in &unlink {
            link[i] = None;
        }
        let clb = SignatureRequestProofBuilder::generate_proof_commitments(&mut rng, Message::new(hc), &link, &pk);
        let ccs = *clb.conjunction_commitment_scalars();
        let bf_state = sb.message_blinding_factor();
        let bf_close = clb.message_blinding_factor();

        // template layout from an honest proof of the library's own prover
        let (_req, honest) = customer::Requested::new(&mut rng, &cfg, cid, mb, cb, &ctx);
        let tpl = Tree::of(&honest);
        let _ = take_challenge_log();

        let rev_names = ["channel_id_commitment_scalar", "close_tag_commitment_scalar", "customer_balance_commitment_scalar", "merchant_balance_commitment_scalar"];
        let rev_slots = [0usize, 1, 3, 4];
        let rev_keys = ["cid", "tag", "cb", "mb"];
        let pubs = [base_close[0], CLOSE_SCALAR, base_close[3], base_close[4]];
        // revealed scalars fixed with the first message (a "late" scalar gets its final value below)
        let mut revealed: Vec<Scalar> = rev_slots.iter().map(|&i| ccs[i]).collect();
        if let Some(d) = st["rev_delta"].as_object() {
            // a revealed scalar deliberately different from the commitment scalar (fixed BEFORE the challenge)
            for (k, v) in d {
                let idx = rev_keys.iter().position(|x| x == k).unwrap();
                revealed[idx] += Scalar::from(v.as_u64().unwrap());
            }
        }

        let assemble = |revealed: &[Scalar], sp: &[u8], cp: &[u8]| -> Vec<u8> {
            let mut b = tpl.bytes.clone();
            for (n, v) in rev_names.iter().zip(revealed.iter()) {
                patch(&mut b, &tpl, n, &sbytes(v));
            }
            patch_span(&mut b, &tpl, "state_proof", sp);
            patch_span(&mut b, &tpl, "close_state_proof", cp);
            b
        };
        let submit = |bytes: &[u8], rng: &mut StdRng| -> (Option<(ClosingSignature, zkabacus_crypto::VerifiedBlindedState)>, Option<(Vec<u8>, Scalar)>) {
            let _ = take_challenge_log();
            match bincode::deserialize::<EstablishProof>(bytes) {
                Ok(p) => {
                    let r = m.initialize(rng, &cid, cb, mb, p, &ctx);
                    (r, last_challenge())
                }
                Err(_) => (None, None),
            }
        };

        // draft: responses for a dummy challenge, only to learn the verifier's challenge c0
        let dummy = ChallengeBuilder::new().finish();
        let _ = take_challenge_log();
        let d_s = bincode::serialize(&sb.clone().generate_proof_response(dummy)).unwrap();
        let d_c = bincode::serialize(&clb.clone().generate_proof_response(dummy)).unwrap();
        let draft = assemble(&revealed, &d_s, &d_c);
        let (_, ch0) = submit(&draft, &mut rng);
        let (tr0, c0) = match ch0 {
            Some(x) => x,
            None => return json!({"ev": "game", "proof": "establish", "id": st["id"], "error": "draft not decodable"}),
        };
        let chal0 = challenge_from_transcript(&tr0);
        assert_eq!(chal0.to_scalar(), c0, "challenge reconstruction");
        let c0inv = Option::<Scalar>::from(c0.invert()).expect("challenge is non-zero");

        // honest responses for the hidden values under c0
        let p_s = sb.clone().generate_proof_response(chal0);
        let p_c = clb.clone().generate_proof_response(chal0);
        let mut z_s = *p_s.conjunction_response_scalars();
        let mut z_c = *p_c.conjunction_response_scalars();
        let mut b_s = bincode::serialize(&p_s).unwrap();
        let mut b_c = bincode::serialize(&p_c).unwrap();
        let sub_tpl_s = Tree::of(&p_s);
        let sub_tpl_c = Tree::of(&p_c);

        // post-challenge choice of revealed scalars: s := z_x[slot] - c0 * public
        if let Some(r) = st["rev"].as_object() {
            for (k, v) in r {
                let idx = rev_keys.iter().position(|x| x == k).unwrap();
                let slot = rev_slots[idx];
                match v.as_str().unwrap_or("honest") {
                    "state" => revealed[idx] = z_s[slot] - c0 * pubs[idx],
                    "close" => revealed[idx] = z_c[slot] - c0 * pubs[idx],
                    _ => {}
                }
            }
        }
        // post-challenge choice of T or C of one sub-proof ("simulation" of one slot): the response of
        // that slot is set to what the verifier's linear check expects, then T (or C) is solved from
        // the Schnorr equation
        let mut final_hidden_s = hs;
        let mut final_hidden_c = hc;
        let mut final_bf_s = bf_state;
        let mut final_bf_c = bf_close;
        for sim in st["sim"].as_array().cloned().unwrap_or_default() {
            let which = sim["proof"].as_str().unwrap();
            let slot = sim["slot"].as_u64().unwrap() as usize;
            let field = sim["field"].as_str().unwrap();
            let ridx = rev_slots.iter().position(|&s| s == slot);
            let (z, bytes, tplx, other_z) = if which == "state" { (&mut z_s, &mut b_s, &sub_tpl_s, z_c) } else { (&mut z_c, &mut b_c, &sub_tpl_c, z_s) };
            // what the verifier expects in this slot
            z[slot] = match ridx {
                Some(i) if !(which == "state" && slot == 1) => c0 * pubs[i] + revealed[i],
                _ => other_z[slot],
            };
            patch(bytes, tplx, &format!("commitment_proof.message_response_scalars.{}", slot), &sbytes(&z[slot]));
            let cpv = Cp::from_tree(&Tree { bytes: bytes.clone(), leaves: tplx.leaves.clone() }, "commitment_proof").unwrap();
            let cc = G1Projective::from(indep::g1(&cpv.c).unwrap());
            let tt = G1Projective::from(indep::g1(&cpv.t).unwrap());
            let mut lhs = G1Projective::from(pkv.g1) * cpv.zbf;
            for (g, zz) in pkv.y1s.iter().zip(cpv.z.iter()) {
                lhs += G1Projective::from(g) * zz;
            }
            if field == "T" {
                let newt = lhs - cc * c0;
                patch(bytes, tplx, "commitment_proof.scalar_commitment", &G1Affine::from(newt).to_compressed());
            } else {
                let newc = (lhs - tt) * c0inv;
                patch(bytes, tplx, "commitment_proof.commitment", &G1Affine::from(newc).to_compressed());
                // the prover still knows the opening of the new C: m_i = (z_i - t_i) / c0
                let (hid, csx) = if which == "state" { (&mut final_hidden_s, cs) } else { (&mut final_hidden_c, ccs) };
                hid[slot] = (z[slot] - csx[slot]) * c0inv;
                let _ = (&mut final_bf_s, &mut final_bf_c);
            }
        }

        let fin = assemble(&revealed, &b_s, &b_c);
        let (res, ch1) = submit(&fin, &mut rng);
        let accepted = res.is_some();
        let (tr1, c1) = ch1.unwrap_or((vec![], Scalar::zero()));
        let c_recomputed_ok = indep::challenge_of_transcript(&tr1) == c1;

        // independent relation atoms on the FINAL proof under the verifier's challenge c1
        let ft = Tree { bytes: fin.clone(), leaves: tpl.leaves.clone() };
        let cps = Cp::from_tree(&ft, "state_proof.commitment_proof").unwrap();
        let cpc = Cp::from_tree(&ft, "close_state_proof.commitment_proof").unwrap();
        let rv: Vec<Scalar> = rev_names.iter().map(|n| indep::sc(ft.bytes_at(n).unwrap()).unwrap()).collect();
        let atoms = json!({
            "schnorr_state": cps.schnorr_g1(&pkv.g1, &pkv.y1s, &c1),
            "schnorr_close": cpc.schnorr_g1(&pkv.g1, &pkv.y1s, &c1),
            "cid_state": cps.z[0] == c1 * pubs[0] + rv[0],
            "cid_close": cpc.z[0] == c1 * pubs[0] + rv[0],
            "tag_close": cpc.z[1] == c1 * pubs[1] + rv[1],
            "locks_equal": cps.z[2] == cpc.z[2],
            "cb_state": cps.z[3] == c1 * pubs[2] + rv[2],
            "cb_close": cpc.z[3] == c1 * pubs[2] + rv[2],
            "mb_state": cps.z[4] == c1 * pubs[3] + rv[3],
            "mb_close": cpc.z[4] == c1 * pubs[3] + rv[3],
            "challenge_is_sha3_of_transcript": c_recomputed_ok,
        });

        // on acceptance: what do the returned signatures unblind to?
        let mut sigs = json!({});
        if let Some((csig, vbs)) = res {
            let tok = m.activate(&mut rng, vbs);
            let close_sig = unblind_bytes(&bincode::serialize(&csig).unwrap(), final_bf_c);
            let tok_sig = unblind_bytes(&bincode::serialize(&tok).unwrap(), final_bf_s);
            let vc = close_sig.map(|s| s.verify(&pk, &Message::new(final_hidden_c))).unwrap_or(false);
            let vs = tok_sig.map(|s| s.verify(&pk, &Message::new(final_hidden_s))).unwrap_or(false);
            // and on no single-slot variation of the hidden tuples
            let mut none_other = true;
            for i in 0..5 {
                let mut a = final_hidden_c;
                a[i] += Scalar::one();
                let mut b = final_hidden_s;
                b[i] += Scalar::one();
                if close_sig.map(|s| s.verify(&pk, &Message::new(a))).unwrap_or(false) { none_other = false; }
                if tok_sig.map(|s| s.verify(&pk, &Message::new(b))).unwrap_or(false) { none_other = false; }
            }
            sigs = json!({"close_sig_on_hidden_close_state": vc, "token_on_hidden_state": vs, "no_single_slot_variation": none_other});
        }
        json!({"ev": "game", "proof": "establish", "id": st["id"], "strategy": st["name"], "accepted": accepted, "atoms": atoms,
               "truth": truth_after_sim(truth, &final_hidden_s, &final_hidden_c, &base_state, &base_close),
               "token_ok": true, "sigs": sigs,
               "challenge_changed_after_late_choice": c1 != c0, "clusters": st["clusters"]})
    }
}

fn truth_after_sim(truth: bool, hs: &[Scalar; 5], hc: &[Scalar; 5], bs: &[Scalar; 5], bc: &[Scalar; 5]) -> bool {
    let _ = truth;
    hs[0] == bs[0] && hs[3] == bs[3] && hs[4] == bs[4] && hc[0] == bc[0] && hc[1] == CLOSE_SCALAR && hc[3] == bc[3] && hc[4] == bc[4] && hs[2] == hc[2]
}

/// unblind a 96-byte blinded signature (ClosingSignature / PayToken wire form) with a blinding factor
pub fn unblind_bytes(b: &[u8], bf: BlindingFactor) -> Option<Signature> {
    let bs: zkchannels_crypto::pointcheval_sanders::BlindedSignature = bincode::deserialize(b).ok()?;
    Some(bs.unblind(bf))
}

#[allow(dead_code)]
fn _unused(_: &Sp, _: &G2Affine, _: &G2Projective, _: &Cust, _: &PayProof, _: &PayToken, _: &Nonce, _: &PaymentAmount,
           _: &CommitmentProofBuilder<G1Projective, 1>, _: &RangeConstraintBuilder, _: &SignatureProofBuilder<5>) -> String {
    hex(&[])
}

// ====================================================================== observation of the transcript

fn other_atom(len: usize, rng: &mut StdRng) -> Vec<u8> {
    use group::Group;
    match len {
        32 => Scalar::random(&mut *rng).to_bytes().to_vec(),
        48 => G1Affine::from(G1Projective::random(&mut *rng)).to_compressed().to_vec(),
        96 => G2Affine::from(G2Projective::random(&mut *rng)).to_compressed().to_vec(),
        _ => panic!("unexpected atom length {}", len),
    }
}

fn contains(hay: &[u8], needle: &[u8]) -> bool {
    hay.windows(needle.len()).any(|w| w == needle)
}

impl GameEnv {
    /// For every non-response atom of an honest EstablishProof: is it bound by the challenge the
    /// merchant derives (replace it by another valid atom and compare the recorded challenges)?
    pub fn observe_establish(&mut self) -> Value {
        let mut rng = self.rng(2);
        let m: &'static merchant::Config = self.world.mers[0];
        let cfg = customer_config_of(m);
        let pk = m.signing_keypair().public_key().clone();
        let cb = CustomerBalance::try_new(10).unwrap();
        let mb = MerchantBalance::try_new(20).unwrap();
        let cid = {
            use zkabacus_crypto::{CustomerRandomness, MerchantRandomness};
            ChannelId::new(MerchantRandomness::new(&mut rng), CustomerRandomness::new(&mut rng), &pk, b"m", b"c")
        };
        let ctx = Context::new(b"observe establish");
        let (_req, honest) = customer::Requested::new(&mut rng, &cfg, cid, mb, cb, &ctx);
        let _ = take_challenge_log();
        let prover_challenge_placeholder = ();
        let _ = prover_challenge_placeholder;
        let tpl = Tree::of(&honest);
        let run = |bytes: &[u8], rng: &mut StdRng| -> Option<(bool, Vec<u8>, Scalar)> {
            let _ = take_challenge_log();
            let p: EstablishProof = bincode::deserialize(bytes).ok()?;
            let r = m.initialize(rng, &cid, cb, mb, p, &ctx).is_some();
            let (t, c) = last_challenge()?;
            Some((r, t, c))
        };
        let (ok0, tr0, c0) = run(&tpl.bytes, &mut rng).expect("honest proof decodes");
        let mut atoms = vec![];
        for l in tpl.atoms() {
            let response = l.path.contains("response");
            let mut b = tpl.bytes.clone();
            let new = other_atom(l.len, &mut rng);
            b[l.off..l.off + l.len].copy_from_slice(&new);
            let (changed, dec) = match run(&b, &mut rng) {
                Some((_, _, c)) => (c != c0, true),
                None => (false, false),
            };
            atoms.push(json!({"path": l.path, "len": l.len, "response": response, "hashed": changed, "decoded": dec,
                              "in_transcript": contains(&tr0, &tpl.bytes[l.off..l.off + l.len])}));
        }
        json!({"proof": "establish", "honest_accepted": ok0, "transcript_len": tr0.len(), "atoms": atoms})
    }
}

impl GameEnv {
    pub fn observe_pay(&mut self) -> Value { json!({"todo": true}) }
    pub fn pay(&mut self, _st: &Value) -> Value { json!({"todo": true}) }
}
