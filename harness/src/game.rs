//! Adversarial prover for the composite zkAbacus proofs (EstablishProof, PayProof), built purely
//! on the public zkchannels-crypto API (proof builders, ChallengeBuilder, Message) plus the wire
//! layout discovered by the recording serializer.  It executes strategies of the forger family
//! (honest-but-lying, cross-slot substitution, per-relation violation, post-challenge choice of
//! non-response fields) against the real merchant and logs, per submitted proof, the verdict, the
//! truth value of every relation of the specified verifier (evaluated independently), whether the
//! statement is true for the hidden values, and - on acceptance - what the returned blind
//! signatures unblind to.  Events are validated by TLC against Trace_Game.tla.
use crate::indep::{self, Cp, Pk, Sp};
use crate::proto::{customer_config_of, Cust, World};
use crate::rec::Tree;
use crate::rngs::seeded;
use crate::util::hex;
use bls12_381::{G1Affine, G1Projective, G2Affine, G2Projective, Scalar};
use ff::Field;
use rand::rngs::StdRng;
use serde_json::{json, Value};
use zkabacus_crypto::{
    customer, merchant, ChannelId, ClosingSignature, Context, CustomerBalance, EstablishProof,
    MerchantBalance, Nonce, PayProof, PayToken, PaymentAmount, CLOSE_SCALAR,
};
use zkchannels_crypto::pointcheval_sanders::Signature;
use zkchannels_crypto::proofs::verif_hooks::take_challenge_log;
use zkchannels_crypto::proofs::{
    Challenge, ChallengeBuilder, CommitmentProofBuilder, RangeConstraintBuilder,
    SignatureProofBuilder, SignatureRequestProofBuilder,
};
use zkchannels_crypto::{BlindingFactor, Message};

pub fn cid_scalar(cid: &ChannelId) -> Scalar {
    let b = cid.to_bytes();
    let l = |i: usize| {
        let mut a = [0u8; 8];
        a.copy_from_slice(&b[8 * i..8 * i + 8]);
        u64::from_le_bytes(a)
    };
    Scalar::from_raw([l(0), l(1), l(2), l(3)])
}

/// the Challenge object the verifier derived for the transcript it hashed (same bytes, same hash)
pub fn challenge_from_transcript(t: &[u8]) -> Challenge {
    let c = ChallengeBuilder::new().with_bytes(t).finish();
    let _ = take_challenge_log();
    c
}

fn sbytes(s: &Scalar) -> [u8; 32] {
    s.to_bytes()
}

/// overwrite the leaf at `path` of a serialized value (layout taken from `tree`)
pub fn patch(bytes: &mut [u8], tree: &Tree, path: &str, new: &[u8]) {
    let l = tree.get(path).unwrap_or_else(|| panic!("no leaf {}", path));
    assert_eq!(l.len, new.len(), "leaf {} has length {}", path, l.len);
    bytes[l.off..l.off + l.len].copy_from_slice(new);
}
pub fn patch_span(bytes: &mut [u8], tree: &Tree, prefix: &str, new: &[u8]) {
    let (lo, hi) = tree.span(prefix).unwrap_or_else(|| panic!("no subtree {}", prefix));
    assert_eq!(hi - lo, new.len(), "subtree {} has length {}", prefix, hi - lo);
    bytes[lo..hi].copy_from_slice(new);
}

fn dev(base: &[Scalar; 5], d: &Value, rng: &mut StdRng) -> [Scalar; 5] {
    let mut out = *base;
    if let Some(a) = d.as_array() {
        for (i, x) in a.iter().enumerate().take(5) {
            let x = x.as_str().unwrap_or("ok");
            if x == "plus1" {
                out[i] = base[i] + Scalar::one();
            } else if x == "minus1" {
                out[i] = base[i] - Scalar::one();
            } else if x == "fresh" {
                out[i] = Scalar::random(&mut *rng);
            } else if let Some(j) = x.strip_prefix("slot:") {
                out[i] = base[j.parse::<usize>().unwrap()];
            } else if let Some(v) = x.strip_prefix("val:") {
                // small signed integer offset given explicitly
                let n: i64 = v.parse().unwrap();
                out[i] = if n >= 0 { Scalar::from(n as u64) } else { -Scalar::from(n.unsigned_abs()) };
            }
        }
    }
    out
}

pub struct GameEnv {
    pub world: World,
    pub seed: u64,
    pub counter: u64,
}

/// last (transcript, challenge) pair the verifier recorded
fn last_challenge() -> Option<(Vec<u8>, Scalar)> {
    let log = take_challenge_log();
    let (t, c) = log.into_iter().last()?;
    let cs = indep::sc(&c)?;
    Some((t, cs))
}

impl GameEnv {
    pub fn new(seed: u64) -> GameEnv {
        GameEnv { world: World::new(seed, 2), seed, counter: 0 }
    }
    fn rng(&mut self, stream: u64) -> StdRng {
        self.counter += 1;
        seeded(self.seed.wrapping_add(self.counter.wrapping_mul(0x9e37_79b9)), stream)
    }

    // ================================================================== Establish

    /// Execute one establish strategy against merchant::Config::initialize.
    pub fn establish(&mut self, st: &Value) -> Value {
        let mut rng = self.rng(1);
        let m: &'static merchant::Config = self.world.mers[0];
        let cfg = customer_config_of(m);
        let pk = m.signing_keypair().public_key().clone();
        let pkv = Pk::from_tree(&Tree::of(&pk), "").expect("public key view");
        // agreed public values
        let cbv = st["cb"].as_u64().unwrap_or(10);
        let mbv = st["mb"].as_u64().unwrap_or(1000);
        let cb = CustomerBalance::try_new(cbv).unwrap();
        let mb = MerchantBalance::try_new(mbv).unwrap();
        let cid = {
            use zkabacus_crypto::{CustomerRandomness, MerchantRandomness};
            ChannelId::new(MerchantRandomness::new(&mut rng), CustomerRandomness::new(&mut rng), &pk, b"m", b"c")
        };
        let ctx = Context::new(b"establish game");
        let nonce = Scalar::random(&mut rng);
        let lock = Scalar::random(&mut rng);
        let base_state = [cid_scalar(&cid), nonce, lock, Scalar::from(cbv), Scalar::from(mbv)];
        let base_close = [cid_scalar(&cid), CLOSE_SCALAR, lock, Scalar::from(cbv), Scalar::from(mbv)];
        let hs = dev(&base_state, &st["hs"], &mut rng);
        let hc = dev(&base_close, &st["hc"], &mut rng);
        // statement truth for the hidden values (slot 1 of the state, the nonce, is free)
        let truth = hs[0] == base_state[0] && hs[3] == base_state[3] && hs[4] == base_state[4]
            && hc[0] == base_close[0] && hc[1] == CLOSE_SCALAR && hc[3] == base_close[3] && hc[4] == base_close[4]
            && hs[2] == hc[2];
        let unlink: Vec<usize> = st["unlink"].as_array().map(|a| a.iter().map(|x| x.as_u64().unwrap() as usize).collect()).unwrap_or_default();

        // first message
        let sb = SignatureRequestProofBuilder::generate_proof_commitments(&mut rng, Message::new(hs), &[None; 5], &pk);
        let cs = *sb.conjunction_commitment_scalars();
        let mut link = [Some(cs[0]), None, Some(cs[2]), Some(cs[3]), Some(cs[4])];
        for &i in &unlink {
            link[i] = None;
        }
        let clb = SignatureRequestProofBuilder::generate_proof_commitments(&mut rng, Message::new(hc), &link, &pk);
        let ccs = *clb.conjunction_commitment_scalars();
        let bf_state = sb.message_blinding_factor();
        let bf_close = clb.message_blinding_factor();

        // template layout from an honest proof of the library's own prover
        let (_req, honest) = customer::Requested::new(&mut rng, &cfg, cid, mb, cb, &ctx);
        let tpl = Tree::of(&honest);
        let _ = take_challenge_log();

        let rev_names = ["channel_id_commitment_scalar", "close_tag_commitment_scalar", "customer_balance_commitment_scalar", "merchant_balance_commitment_scalar"];
        let rev_slots = [0usize, 1, 3, 4];
        let rev_keys = ["cid", "tag", "cb", "mb"];
        let pubs = [base_close[0], CLOSE_SCALAR, base_close[3], base_close[4]];
        // revealed scalars fixed with the first message (a "late" scalar gets its final value below)
        let mut revealed: Vec<Scalar> = rev_slots.iter().map(|&i| ccs[i]).collect();
        if let Some(d) = st["rev_delta"].as_object() {
            // a revealed scalar deliberately different from the commitment scalar (fixed BEFORE the challenge)
            for (k, v) in d {
                let idx = rev_keys.iter().position(|x| x == k).unwrap();
                revealed[idx] += Scalar::from(v.as_u64().unwrap());
            }
        }

        let assemble = |revealed: &[Scalar], sp: &[u8], cp: &[u8]| -> Vec<u8> {
            let mut b = tpl.bytes.clone();
            for (n, v) in rev_names.iter().zip(revealed.iter()) {
                patch(&mut b, &tpl, n, &sbytes(v));
            }
            patch_span(&mut b, &tpl, "state_proof", sp);
            patch_span(&mut b, &tpl, "close_state_proof", cp);
            b
        };
        let submit = |bytes: &[u8], rng: &mut StdRng| -> (Option<(ClosingSignature, zkabacus_crypto::VerifiedBlindedState)>, Option<(Vec<u8>, Scalar)>) {
            let _ = take_challenge_log();
            match bincode::deserialize::<EstablishProof>(bytes) {
                Ok(p) => {
                    let r = m.initialize(rng, &cid, cb, mb, p, &ctx);
                    (r, last_challenge())
                }
                Err(_) => (None, None),
            }
        };

        // draft: responses for a dummy challenge, only to learn the verifier's challenge c0
        let dummy = ChallengeBuilder::new().finish();
        let _ = take_challenge_log();
        let d_s = bincode::serialize(&sb.clone().generate_proof_response(dummy)).unwrap();
        let d_c = bincode::serialize(&clb.clone().generate_proof_response(dummy)).unwrap();
        let draft = assemble(&revealed, &d_s, &d_c);
        let (_, ch0) = submit(&draft, &mut rng);
        let (tr0, c0) = match ch0 {
            Some(x) => x,
            None => return json!({"ev": "game", "proof": "establish", "id": st["id"], "error": "draft not decodable"}),
        };
        let chal0 = challenge_from_transcript(&tr0);
        assert_eq!(chal0.to_scalar(), c0, "challenge reconstruction");
        let c0inv = Option::<Scalar>::from(c0.invert()).expect("challenge is non-zero");

        // honest responses for the hidden values under c0
        let p_s = sb.clone().generate_proof_response(chal0);
        let p_c = clb.clone().generate_proof_response(chal0);
        let mut z_s = *p_s.conjunction_response_scalars();
        let mut z_c = *p_c.conjunction_response_scalars();
        let mut b_s = bincode::serialize(&p_s).unwrap();
        let mut b_c = bincode::serialize(&p_c).unwrap();
        let sub_tpl_s = Tree::of(&p_s);
        let sub_tpl_c = Tree::of(&p_c);

        // post-challenge choice of revealed scalars: s := z_x[slot] - c0 * public
        if let Some(r) = st["rev"].as_object() {
            for (k, v) in r {
                let idx = rev_keys.iter().position(|x| x == k).unwrap();
                let slot = rev_slots[idx];
                match v.as_str().unwrap_or("honest") {
                    "state" => revealed[idx] = z_s[slot] - c0 * pubs[idx],
                    "close" => revealed[idx] = z_c[slot] - c0 * pubs[idx],
                    _ => {}
                }
            }
        }
        // post-challenge choice of T or C of one sub-proof ("simulation" of one slot): the response of
        // that slot is set to what the verifier's linear check expects, then T (or C) is solved from
        // the Schnorr equation
        let mut final_hidden_s = hs;
        let mut final_hidden_c = hc;
        let mut final_bf_s = bf_state;
        let mut final_bf_c = bf_close;
        for sim in st["sim"].as_array().cloned().unwrap_or_default() {
            let which = sim["proof"].as_str().unwrap();
            let slot = sim["slot"].as_u64().unwrap() as usize;
            let field = sim["field"].as_str().unwrap();
            let ridx = rev_slots.iter().position(|&s| s == slot);
            let (z, bytes, tplx, other_z) = if which == "state" { (&mut z_s, &mut b_s, &sub_tpl_s, z_c) } else { (&mut z_c, &mut b_c, &sub_tpl_c, z_s) };
            // what the verifier expects in this slot
            z[slot] = match ridx {
                Some(i) if !(which == "state" && slot == 1) => c0 * pubs[i] + revealed[i],
                _ => other_z[slot],
            };
            patch(bytes, tplx, &format!("commitment_proof.message_response_scalars.{}", slot), &sbytes(&z[slot]));
            let cpv = Cp::from_tree(&Tree { bytes: bytes.clone(), leaves: tplx.leaves.clone() }, "commitment_proof").unwrap();
            let cc = G1Projective::from(indep::g1(&cpv.c).unwrap());
            let tt = G1Projective::from(indep::g1(&cpv.t).unwrap());
            let mut lhs = G1Projective::from(pkv.g1) * cpv.zbf;
            for (g, zz) in pkv.y1s.iter().zip(cpv.z.iter()) {
                lhs += G1Projective::from(g) * zz;
            }
            if field == "T" {
                let newt = lhs - cc * c0;
                patch(bytes, tplx, "commitment_proof.scalar_commitment", &G1Affine::from(newt).to_compressed());
            } else {
                let newc = (lhs - tt) * c0inv;
                patch(bytes, tplx, "commitment_proof.commitment", &G1Affine::from(newc).to_compressed());
                // the prover still knows the opening of the new C: m_i = (z_i - t_i) / c0
                let (hid, csx) = if which == "state" { (&mut final_hidden_s, cs) } else { (&mut final_hidden_c, ccs) };
                hid[slot] = (z[slot] - csx[slot]) * c0inv;
                let _ = (&mut final_bf_s, &mut final_bf_c);
            }
        }

        // responses overridden AFTER the challenge to what an honest prover for the AGREED values would
        // send (z = c0 * agreed + commitment scalar), whatever the commitment actually holds: every linear
        // check of the verifier then passes and only the Schnorr equation of that sub-proof can refuse
        let mut resp_ok = true;
        for zs in st["zset"].as_array().cloned().unwrap_or_default() {
            let which = zs["proof"].as_str().unwrap();
            let slot = zs["slot"].as_u64().unwrap() as usize;
            let (z, bytes, tplx, base, csx) = if which == "state" { (&mut z_s, &mut b_s, &sub_tpl_s, base_state, cs) } else { (&mut z_c, &mut b_c, &sub_tpl_c, base_close, ccs) };
            let want = c0 * base[slot] + csx[slot];
            if z[slot] != want { resp_ok = false; }
            z[slot] = want;
            patch(bytes, tplx, &format!("commitment_proof.message_response_scalars.{}", slot), &sbytes(&want));
        }

        let fin = assemble(&revealed, &b_s, &b_c);
        let (res, ch1) = submit(&fin, &mut rng);
        let accepted = res.is_some();
        let (tr1, c1) = ch1.unwrap_or((vec![], Scalar::zero()));
        let c_recomputed_ok = indep::challenge_of_transcript(&tr1) == c1;

        // independent relation atoms on the FINAL proof under the verifier's challenge c1
        let ft = Tree { bytes: fin.clone(), leaves: tpl.leaves.clone() };
        let cps = Cp::from_tree(&ft, "state_proof.commitment_proof").unwrap();
        let cpc = Cp::from_tree(&ft, "close_state_proof.commitment_proof").unwrap();
        let rv: Vec<Scalar> = rev_names.iter().map(|n| indep::sc(ft.bytes_at(n).unwrap()).unwrap()).collect();
        let atoms = json!({
            "schnorr_state": cps.schnorr_g1(&pkv.g1, &pkv.y1s, &c1),
            "schnorr_close": cpc.schnorr_g1(&pkv.g1, &pkv.y1s, &c1),
            "cid_state": cps.z[0] == c1 * pubs[0] + rv[0],
            "cid_close": cpc.z[0] == c1 * pubs[0] + rv[0],
            "tag_close": cpc.z[1] == c1 * pubs[1] + rv[1],
            "locks_equal": cps.z[2] == cpc.z[2],
            "cb_state": cps.z[3] == c1 * pubs[2] + rv[2],
            "cb_close": cpc.z[3] == c1 * pubs[2] + rv[2],
            "mb_state": cps.z[4] == c1 * pubs[3] + rv[3],
            "mb_close": cpc.z[4] == c1 * pubs[3] + rv[3],
        });

        // on acceptance: what do the returned signatures unblind to?
        let mut sigs = json!({});
        if let Some((csig, vbs)) = res {
            let tok = m.activate(&mut rng, vbs);
            let close_sig = unblind_bytes(&bincode::serialize(&csig).unwrap(), final_bf_c);
            let tok_sig = unblind_bytes(&bincode::serialize(&tok).unwrap(), final_bf_s);
            let vc = close_sig.map(|s| s.verify(&pk, &Message::new(final_hidden_c))).unwrap_or(false);
            let vs = tok_sig.map(|s| s.verify(&pk, &Message::new(final_hidden_s))).unwrap_or(false);
            // and on no single-slot variation of the hidden tuples
            let mut none_other = true;
            for i in 0..5 {
                let mut a = final_hidden_c;
                a[i] += Scalar::one();
                let mut b = final_hidden_s;
                b[i] += Scalar::one();
                if close_sig.map(|s| s.verify(&pk, &Message::new(a))).unwrap_or(false) { none_other = false; }
                if tok_sig.map(|s| s.verify(&pk, &Message::new(b))).unwrap_or(false) { none_other = false; }
            }
            // ... nor on a tuple with two slots moved in opposite directions (holds iff the y_i of the key differ)
            let mut none_pair = true;
            for i in 0..5 {
                for j in 0..5 {
                    if i == j { continue; }
                    let mut a = final_hidden_c;
                    a[i] += Scalar::one();
                    a[j] -= Scalar::one();
                    let mut b = final_hidden_s;
                    b[i] += Scalar::one();
                    b[j] -= Scalar::one();
                    if close_sig.map(|s| s.verify(&pk, &Message::new(a))).unwrap_or(false) { none_pair = false; }
                    if tok_sig.map(|s| s.verify(&pk, &Message::new(b))).unwrap_or(false) { none_pair = false; }
                }
            }
            let bases_differ = bincode::serialize(&csig).unwrap()[..48] != bincode::serialize(&tok).unwrap()[..48];
            sigs = json!({"close_sig_on_hidden_close_state": vc, "token_on_hidden_state": vs, "no_single_slot_variation": none_other,
                          "no_two_slot_compensation": none_pair, "closing_signature_and_pay_token_have_different_bases": bases_differ});
        }
        json!({"ev": "game", "proof": "establish", "id": st["id"], "strategy": st["name"], "accepted": accepted, "atoms": atoms,
               "truth": truth_after_sim(truth, &final_hidden_s, &final_hidden_c, &base_state, &base_close),
               "token_ok": true, "resp_ok": resp_ok, "digits_ok": true, "sigs": sigs,
               "challenge_changed_after_late_choice": c1 != c0, "clusters": st["clusters"]})
    }
}

fn truth_after_sim(truth: bool, hs: &[Scalar; 5], hc: &[Scalar; 5], bs: &[Scalar; 5], bc: &[Scalar; 5]) -> bool {
    let _ = truth;
    hs[0] == bs[0] && hs[3] == bs[3] && hs[4] == bs[4] && hc[0] == bc[0] && hc[1] == CLOSE_SCALAR && hc[3] == bc[3] && hc[4] == bc[4] && hs[2] == hc[2]
}

/// unblind a 96-byte blinded signature (ClosingSignature / PayToken wire form) with a blinding factor
pub fn unblind_bytes(b: &[u8], bf: BlindingFactor) -> Option<Signature> {
    let bs: zkchannels_crypto::pointcheval_sanders::BlindedSignature = bincode::deserialize(b).ok()?;
    Some(bs.unblind(bf))
}

#[allow(dead_code)]
fn _unused(_: &Sp, _: &G2Affine, _: &G2Projective, _: &Cust, _: &PayProof, _: &PayToken, _: &Nonce, _: &PaymentAmount,
           _: &CommitmentProofBuilder<G1Projective, 1>, _: &RangeConstraintBuilder, _: &SignatureProofBuilder<5>) -> String {
    hex(&[])
}

// ====================================================================== observation of the transcript

fn other_atom(len: usize, rng: &mut StdRng) -> Vec<u8> {
    use group::Group;
    match len {
        32 => Scalar::random(&mut *rng).to_bytes().to_vec(),
        48 => G1Affine::from(G1Projective::random(&mut *rng)).to_compressed().to_vec(),
        96 => G2Affine::from(G2Projective::random(&mut *rng)).to_compressed().to_vec(),
        _ => panic!("unexpected atom length {}", len),
    }
}

fn contains(hay: &[u8], needle: &[u8]) -> bool {
    hay.windows(needle.len()).any(|w| w == needle)
}

impl GameEnv {
    /// For every non-response atom of an honest EstablishProof: is it bound by the challenge the
    /// merchant derives (replace it by another valid atom and compare the recorded challenges)?
    pub fn observe_establish(&mut self) -> Value {
        let mut rng = self.rng(2);
        let m: &'static merchant::Config = self.world.mers[0];
        let cfg = customer_config_of(m);
        let pk = m.signing_keypair().public_key().clone();
        let cb = CustomerBalance::try_new(10).unwrap();
        let mb = MerchantBalance::try_new(20).unwrap();
        let cid = {
            use zkabacus_crypto::{CustomerRandomness, MerchantRandomness};
            ChannelId::new(MerchantRandomness::new(&mut rng), CustomerRandomness::new(&mut rng), &pk, b"m", b"c")
        };
        let ctx = Context::new(b"observe establish");
        let (_req, honest) = customer::Requested::new(&mut rng, &cfg, cid, mb, cb, &ctx);
        let _ = take_challenge_log();
        let prover_challenge_placeholder = ();
        let _ = prover_challenge_placeholder;
        let tpl = Tree::of(&honest);
        let run = |bytes: &[u8], rng: &mut StdRng| -> Option<(bool, Vec<u8>, Scalar)> {
            let _ = take_challenge_log();
            let p: EstablishProof = bincode::deserialize(bytes).ok()?;
            let r = m.initialize(rng, &cid, cb, mb, p, &ctx).is_some();
            let (t, c) = last_challenge()?;
            Some((r, t, c))
        };
        let (ok0, tr0, c0) = run(&tpl.bytes, &mut rng).expect("honest proof decodes");
        let mut atoms = vec![];
        for l in tpl.atoms() {
            let response = l.path.contains("response");
            let mut b = tpl.bytes.clone();
            let new = other_atom(l.len, &mut rng);
            b[l.off..l.off + l.len].copy_from_slice(&new);
            let (mut changed, dec) = match run(&b, &mut rng) {
                Some((_, _, c)) => (c != c0, true),
                None => (false, false),
            };
            // ... and by the negated atom (same x-coordinate / absolute value)
            if let Some(neg) = crate::bind::negated_atom(&tpl.bytes[l.off..l.off + l.len]) {
                if neg != tpl.bytes[l.off..l.off + l.len] {
                    let mut b2 = tpl.bytes.clone();
                    b2[l.off..l.off + l.len].copy_from_slice(&neg);
                    if let Some((_, _, c)) = run(&b2, &mut rng) { changed = changed && c != c0; }
                }
            }
            atoms.push(json!({"path": l.path, "len": l.len, "response": response, "hashed": changed, "decoded": dec,
                              "in_transcript": contains(&tr0, &tpl.bytes[l.off..l.off + l.len])}));
        }
        json!({"proof": "establish", "honest_accepted": ok0, "transcript_len": tr0.len(), "atoms": atoms})
    }
}


// ====================================================================== Pay

/// A range constraint assembled digit by digit from the public SignatureProofBuilder: any scalar as a
/// digit, the published digit signature ("params"), a signature by a foreign key ("otherkey"), or a
/// pair of COOPERATING forged blinded signatures ("pairA" / "pairB": (H, Z_a), (-H, Z_b) with
/// Z_a + Z_b = rho * (g^(bf_a - bf_b) * Y^(d_a - d_b)), H = g^rho - each pairing equation is false, their
/// unweighted product is the identity).  The blinding factors of the two commitments are extracted from
/// the builders' responses to two challenges (special soundness), so only the public API is used.
pub struct CustomRange {
    builders: Vec<SignatureProofBuilder<1>>,
    forged: Vec<Option<Vec<u8>>>,
    pub cs: Scalar,
    pub all_signed: bool,
}

impl CustomRange {
    pub fn new(spec: &Value, rtree: &Tree, rpk_obj: &zkchannels_crypto::pointcheval_sanders::PublicKey<1>, rpk: &Pk, rng: &mut StdRng) -> CustomRange {
        use zkchannels_crypto::pointcheval_sanders::KeyPair;
        let other = KeyPair::<1>::new(&mut *rng);
        let spec = spec.as_array().unwrap();
        assert_eq!(spec.len(), 9, "nine digits");
        let mut builders = vec![];
        let mut digits = vec![];
        let mut kinds = vec![];
        let mut all_signed = true;
        let published = |d: u64| -> Signature {
            let (lo, hi) = rtree.span(&format!("digit_signatures.{}", d)).expect("published digit signature");
            bincode::deserialize(&rtree.bytes[lo..hi]).unwrap()
        };
        for e in spec {
            let dv = e["d"].as_i64().unwrap();
            let d = amount_scalar(dv);
            let kind = e["sig"].as_str().unwrap_or("params").to_string();
            let sig = match kind.as_str() {
                "params" if (0..128).contains(&dv) => published(dv as u64),
                "params" | "otherkey" => Message::new([d]).sign(&mut *rng, &other),
                _ => published(0),
            };
            if kind != "params" || !(0..128).contains(&dv) || !sig.verify(rpk_obj, &Message::new([d])) { all_signed = false; }
            builders.push(SignatureProofBuilder::<1>::generate_proof_commitments(&mut *rng, Message::new([d]), sig, &[None], rpk_obj));
            digits.push(d);
            kinds.push(kind);
        }
        let mut cs = Scalar::zero();
        let mut pow = Scalar::one();
        for b in &builders {
            cs += pow * b.conjunction_commitment_scalars()[0];
            pow *= Scalar::from(128u64);
        }
        let mut forged: Vec<Option<Vec<u8>>> = vec![None; 9];
        let ia = kinds.iter().position(|k| k == "pairA");
        let ib = kinds.iter().position(|k| k == "pairB");
        if let (Some(ia), Some(ib)) = (ia, ib) {
            let ch_a = challenge_from_transcript(b"extract a");
            let ch_b = challenge_from_transcript(b"extract b");
            let bf_of = |b: &SignatureProofBuilder<1>| -> Scalar {
                let za = Tree::of(&b.clone().generate_proof_response(ch_a));
                let zb = Tree::of(&b.clone().generate_proof_response(ch_b));
                let f = |t: &Tree| indep::sc(t.bytes_at("commitment_proof.blinding_factor_response_scalar").unwrap()).unwrap();
                (f(&za) - f(&zb)) * Option::<Scalar>::from((ch_a.to_scalar() - ch_b.to_scalar()).invert()).unwrap()
            };
            let (bfa, bfb) = (bf_of(&builders[ia]), bf_of(&builders[ib]));
            let rho = Scalar::random(&mut *rng);
            let g = G1Projective::from(rpk.g1);
            let y = G1Projective::from(rpk.y1s[0]);
            let h = g * rho;
            let zsum = (g * (bfa - bfb) + y * (digits[ia] - digits[ib])) * rho;
            let za = g * Scalar::random(&mut *rng);
            let zb = zsum - za;
            let enc = |s1: G1Projective, s2: G1Projective| { let mut v = G1Affine::from(s1).to_compressed().to_vec(); v.extend_from_slice(&G1Affine::from(s2).to_compressed()); v };
            forged[ia] = Some(enc(h, za));
            forged[ib] = Some(enc(-h, zb));
        }
        CustomRange { builders, forged, cs, all_signed }
    }

    /// the RangeConstraint wire bytes (nine SignatureProof<1> in sequence) for this challenge
    pub fn respond(&self, ch: Challenge) -> Vec<u8> {
        let mut out = vec![];
        for (b, f) in self.builders.iter().zip(self.forged.iter()) {
            let p = b.clone().generate_proof_response(ch);
            let t = Tree::of(&p);
            let mut bytes = t.bytes.clone();
            if let Some(f) = f {
                let (lo, hi) = t.span("blinded_signature").unwrap();
                assert_eq!(hi - lo, 96);
                bytes[lo..hi].copy_from_slice(f);
            }
            out.extend_from_slice(&bytes);
        }
        out
    }
}

fn in_range_63(s: &Scalar) -> bool {
    let b = s.to_bytes();
    b[8..].iter().all(|&x| x == 0) && b[7] < 0x80
}
fn scalar_to_i64(s: &Scalar) -> Option<i64> {
    if !in_range_63(s) { return None; }
    let b = s.to_bytes();
    let mut a = [0u8; 8];
    a.copy_from_slice(&b[..8]);
    Some(u64::from_le_bytes(a) as i64)
}
fn amount_scalar(a: i64) -> Scalar {
    if a < 0 { -Scalar::from(a.unsigned_abs()) } else { Scalar::from(a as u64) }
}

/// everything the pay attacker needs from an honest channel that reached `Ready`
pub struct ReadyInfo {
    pub ch: u32,
    pub old: [Scalar; 5],
    pub token: Signature,
    pub old_pair: Vec<u8>,
    pub ctx: Context,
}

impl GameEnv {
    /// drive an honest channel to Ready with `history` completed payments
    pub fn honest_ready(&mut self, cb: u64, mb: u64, history: &[i64]) -> ReadyInfo {
        let ch = 10 + self.world.chans.len() as u32;
        let w = &mut self.world;
        w.request(ch, cb, mb);
        w.minit(ch);
        w.receive(ch, "honest", None);
        w.mactivate(ch);
        w.receive(ch, "honest", None);
        for &a in history {
            w.start(ch, a);
            w.mallow(ch);
            w.receive(ch, "honest", None);
            w.mcomplete(ch, "honest");
            w.receive(ch, "honest", None);
        }
        let c = &w.chans[&ch];
        assert_eq!(c.cust.stage(), "ready", "honest channel did not reach ready");
        let t = c.cust.tree();
        let cidb = t.bytes_at("state.channel_id").unwrap();
        let l = |i: usize| { let mut a = [0u8; 8]; a.copy_from_slice(&cidb[8 * i..8 * i + 8]); u64::from_le_bytes(a) };
        let old = [
            Scalar::from_raw([l(0), l(1), l(2), l(3)]),
            indep::sc(t.bytes_at("state.nonce").unwrap()).unwrap(),
            indep::sc(t.bytes_at("state.revocation_pair.lock").unwrap()).unwrap(),
            Scalar::from(t.u64_at("state.customer_balance").unwrap()),
            Scalar::from(t.u64_at("state.merchant_balance").unwrap()),
        ];
        let (lo, hi) = t.span("pay_token").unwrap();
        let token: Signature = bincode::deserialize(&t.bytes[lo..hi]).unwrap();
        let (lo, hi) = t.span("state.revocation_pair").unwrap();
        let _ = take_challenge_log();
        ReadyInfo { ch, old, token, old_pair: t.bytes[lo..hi].to_vec(), ctx: c.ctx }
    }

    /// honest PayProof of the library's own prover on a copy of the Ready customer (template layout,
    /// and the object of the transcript observation)
    pub fn honest_pay_proof_pub(&mut self, info: &ReadyInfo, amount: i64) -> (Vec<u8>, Tree, Vec<u8>) { self.honest_pay_proof(info, amount) }
    fn honest_pay_proof(&mut self, info: &ReadyInfo, amount: i64) -> (Vec<u8>, Tree, Vec<u8>) {
        self.honest_pay_proof_opt(info, amount).expect("honest start")
    }
    /// None when the library refuses to start this (in-range) payment
    pub fn honest_pay_proof_opt(&mut self, info: &ReadyInfo, amount: i64) -> Option<(Vec<u8>, Tree, Vec<u8>)> {
        let mut rng = self.rng(3);
        let c = &self.world.chans[&info.ch];
        let cfg = &self.world.ccfgs[c.mer];
        let copy = Cust::from_bytes("ready", &c.cust.to_bytes()).unwrap();
        let ready = match copy { Cust::Ready(r) => r, _ => unreachable!() };
        let amt: PaymentAmount = bincode::deserialize(&amount.to_le_bytes()).unwrap();
        let (_started, msg) = ready.start(&mut rng, amt, &info.ctx, cfg).ok()?;
        let nonce = bincode::serialize(&msg.nonce).unwrap();
        let tree = Tree::of(&msg.pay_proof);
        let _ = take_challenge_log();
        Some((tree.bytes.clone(), tree, nonce))
    }

    /// Execute one pay strategy against merchant::Config::allow_payment.
    pub fn pay(&mut self, st: &Value) -> Value {
        if st["token"].as_str() == Some("identity") {
            return self.pay_identity(st);
        }
        let history: Vec<i64> = st["history"].as_array().map(|a| a.iter().map(|x| x.as_i64().unwrap()).collect()).unwrap_or_default();
        let info = self.honest_ready(st["cb"].as_u64().unwrap_or(100), st["mb"].as_u64().unwrap_or(50), &history);
        let amount = st["amount"].as_i64().unwrap_or(7);
        // template layout from any honest payment the channel admits (1, or -1 / 0 at the boundaries)
        let mbig = info.old[4] == Scalar::from(i64::MAX as u64);
        let czero = info.old[3] == Scalar::zero();
        let (_hb, tpl, _hn) = self.honest_pay_proof(&info, if mbig && czero { 0 } else if mbig || czero { -1 } else { 1 });
        let mut rng = self.rng(4);
        let seed_r = self.seed.wrapping_add(self.counter * 77);
        let m: &'static merchant::Config = self.world.mers[0];
        let cfg = customer_config_of(m);
        let pk = m.signing_keypair().public_key().clone();
        let pkv = Pk::from_tree(&Tree::of(&pk), "").unwrap();
        let rparams = m.range_constraint_parameters().clone();
        let rpk = Pk::from_tree(&Tree::of(&rparams), "public_key").unwrap();
        let revp = m.revocation_commitment_parameters().clone();
        let revt = Tree::of(&revp);
        let (rev_h, rev_g) = (indep::g1(revt.bytes_at("h").unwrap()).unwrap(), indep::g1(revt.bytes_at("gs.0").unwrap()).unwrap());

        // ---- statement and hidden values
        let a_s = amount_scalar(amount);
        let claimed_amount = st["claimed_amount"].as_i64().unwrap_or(amount);
        let new_nonce = Scalar::random(&mut rng);
        let new_lock = Scalar::random(&mut rng);
        let base_pt = info.old;
        let base_st = [info.old[0], new_nonce, new_lock, info.old[3] - a_s, info.old[4] + a_s];
        let base_cl = [info.old[0], CLOSE_SCALAR, new_lock, info.old[3] - a_s, info.old[4] + a_s];
        let hpt = dev(&base_pt, &st["hpt"], &mut rng);
        let hst = dev(&base_st, &st["hst"], &mut rng);
        let hcl = dev(&base_cl, &st["hcl"], &mut rng);
        let hrl = match st["hrl"].as_str().unwrap_or("ok") { "ok" => info.old[2], "plus1" => info.old[2] + Scalar::one(), _ => Scalar::random(&mut rng) };
        let claimed_nonce_s = match st["claimed_nonce"].as_str().unwrap_or("real") { "real" => info.old[1], "plus1" => info.old[1] + Scalar::one(), _ => Scalar::random(&mut rng) };
        let token = match st["token"].as_str().unwrap_or("real") {
            "real" => info.token,
            "otherkey" => Message::new(hpt).sign(&mut rng, &self.world.other_kp),
            _ => info.token,
        };
        // "smallorder": the blinded token inside the proof is overwritten (before the challenge) by sigma1 = the
        // order-3 point (0, 2) of E(Fp) - not the identity, not in G1 - and sigma2 = identity: a TAMPERED token
        let smallorder = st["token"].as_str() == Some("smallorder");
        let token_ok = token.verify(&pk, &Message::new(hpt)) && !smallorder;
        let tamper_pt = |mut b: Vec<u8>| -> Vec<u8> {
            if smallorder {
                for x in b[..96].iter_mut() { *x = 0; }
                b[0] = 0x80;
                b[48] = 0xc0;
            }
            b
        };
        // range values: by default the hidden new balances when they are in range, else 0
        let rv = |key: &str, hidden: &Scalar| -> i64 {
            match st[key].as_i64() {
                Some(v) => v,
                None => scalar_to_i64(hidden).unwrap_or(0),
            }
        };
        let range_cb = rv("range_cb", &hst[3]);
        let range_mb = rv("range_mb", &hst[4]);
        let unlink: Vec<String> = st["unlink"].as_array().map(|a| a.iter().map(|x| x.as_str().unwrap().to_string()).collect()).unwrap_or_default();
        let linked = |name: &str| !unlink.iter().any(|u| u == name);

        // ---- first message (same order as PayProof::new)
        let mk_ranges = |seed: u64| -> Option<(RangeConstraintBuilder, RangeConstraintBuilder)> {
            let mut r = seeded(seed, 41);
            let a = RangeConstraintBuilder::generate_constraint_commitments(range_cb, &rparams, &mut r).ok()?;
            let b = RangeConstraintBuilder::generate_constraint_commitments(range_mb, &rparams, &mut r).ok()?;
            Some((a, b))
        };
        let (crb, mrb) = match mk_ranges(seed_r) {
            Some(x) => x,
            None => return json!({"ev": "game", "proof": "pay", "id": st["id"], "error": "range builder refused the value"}),
        };
        let (crb2, mrb2) = mk_ranges(seed_r).unwrap();
        // digit-level prover (arbitrary digits, arbitrary / cooperating forged digit signatures)
        let rpk_obj = rparams.public_key().clone();
        let rtree = Tree::of(&rparams);
        let custom_cb = if st["digits_cb"].is_array() { Some(CustomRange::new(&st["digits_cb"], &rtree, &rpk_obj, &rpk, &mut seeded(seed_r, 43))) } else { None };
        let custom_mb = if st["digits_mb"].is_array() { Some(CustomRange::new(&st["digits_mb"], &rtree, &rpk_obj, &rpk, &mut seeded(seed_r, 44))) } else { None };
        let digits_ok = custom_cb.as_ref().map(|c| c.all_signed).unwrap_or(true) && custom_mb.as_ref().map(|c| c.all_signed).unwrap_or(true);
        let cbs = custom_cb.as_ref().map(|c| c.cs).unwrap_or_else(|| crb.commitment_scalar());
        let mbs = custom_mb.as_ref().map(|c| c.cs).unwrap_or_else(|| mrb.commitment_scalar());
        let rlb = CommitmentProofBuilder::<G1Projective, 1>::generate_proof_commitments(&mut rng, Message::new([hrl]), &[None], &revp);
        let rl_cs = rlb.conjunction_commitment_scalars()[0];
        let opt = |name: &str, v: Scalar| if linked(name) { Some(v) } else { None };
        let pt_links = [None, None, opt("pt2", rl_cs), opt("pt3", cbs), opt("pt4", mbs)];
        let ptb = SignatureProofBuilder::<5>::generate_proof_commitments(&mut rng, Message::new(hpt), token, &pt_links, &pk);
        let pt_cs = *ptb.conjunction_commitment_scalars();
        let stb = SignatureRequestProofBuilder::<5>::generate_proof_commitments(
            &mut rng, Message::new(hst), &[opt("st0", pt_cs[0]), None, None, opt("st3", cbs), opt("st4", mbs)], &pk);
        let st_cs = *stb.conjunction_commitment_scalars();
        let clb = SignatureRequestProofBuilder::<5>::generate_proof_commitments(
            &mut rng, Message::new(hcl),
            &[opt("cl0", st_cs[0]), None, opt("cl2", st_cs[2]), opt("cl3", st_cs[3]), opt("cl4", st_cs[4])], &pk);
        let cl_cs = *clb.conjunction_commitment_scalars();
        let bf_rl = rlb.message_blinding_factor();
        let bf_st = stb.message_blinding_factor();
        let bf_cl = clb.message_blinding_factor();

        let mut s_nonce = pt_cs[1];
        let mut s_tag = cl_cs[1];
        if let Some(d) = st["rev_delta"].as_object() {
            if d.contains_key("nonce") { s_nonce += Scalar::one(); }
            if d.contains_key("tag") { s_tag += Scalar::one(); }
        }

        let claimed_nonce: Nonce = match bincode::deserialize(&claimed_nonce_s.to_bytes()) {
            Ok(n) => n,
            Err(_) => return json!({"ev": "game", "proof": "pay", "id": st["id"], "error": "nonce not decodable"}),
        };
        let claimed_amt: PaymentAmount = bincode::deserialize(&claimed_amount.to_le_bytes()).unwrap();
        let ca_s = amount_scalar(claimed_amount);

        let assemble = |s_nonce: &Scalar, s_tag: &Scalar, pt: &[u8], rl: &[u8], stp: &[u8], cl: &[u8], cr: &[u8], mr: &[u8]| -> Vec<u8> {
            let mut b = tpl.bytes.clone();
            patch(&mut b, &tpl, "old_nonce_commitment_scalar", &sbytes(s_nonce));
            patch(&mut b, &tpl, "close_tag_commitment_scalar", &sbytes(s_tag));
            patch_span(&mut b, &tpl, "old_pay_token_proof", pt);
            patch_span(&mut b, &tpl, "old_revocation_lock_proof", rl);
            patch_span(&mut b, &tpl, "state_proof", stp);
            patch_span(&mut b, &tpl, "close_state_proof", cl);
            patch_span(&mut b, &tpl, "customer_balance_proof", cr);
            patch_span(&mut b, &tpl, "merchant_balance_proof", mr);
            b
        };
        let ctx = info.ctx;
        let submit = |bytes: &[u8], rng: &mut StdRng| {
            let _ = take_challenge_log();
            match bincode::deserialize::<PayProof>(bytes) {
                Ok(p) => {
                    let r = m.allow_payment(rng, claimed_amt, &claimed_nonce, p, &ctx);
                    (r, last_challenge())
                }
                Err(_) => (None, None),
            }
        };

        // draft under a dummy challenge -> the verifier's challenge c0
        let dummy = ChallengeBuilder::new().finish();
        let _ = take_challenge_log();
        let ser = |v: &dyn erased::Ser| v.ser();
        let draft = assemble(&s_nonce, &s_tag,
            &tamper_pt(ser(&ptb.clone().generate_proof_response(dummy))), &ser(&rlb.clone().generate_proof_response(dummy)),
            &ser(&stb.clone().generate_proof_response(dummy)), &ser(&clb.clone().generate_proof_response(dummy)),
            &custom_cb.as_ref().map(|c| c.respond(dummy)).unwrap_or_else(|| ser(&crb2.generate_constraint_response(dummy))),
            &custom_mb.as_ref().map(|c| c.respond(dummy)).unwrap_or_else(|| ser(&mrb2.generate_constraint_response(dummy))));
        let (_, ch0) = submit(&draft, &mut rng);
        let (tr0, c0) = match ch0 {
            Some(x) => x,
            // the proof is refused by the decoder (an element outside its group): a rejection without any relation
            // being evaluated
            None => return json!({"ev": "game", "proof": "pay", "id": st["id"], "strategy": st["name"], "accepted": false,
                                  "atoms": {"proof_decodes": false}, "truth": false, "token_ok": token_ok, "resp_ok": true, "digits_ok": digits_ok,
                                  "sigs": {}, "challenge_changed_after_late_choice": false, "clusters": st["clusters"]}),
        };
        let chal0 = challenge_from_transcript(&tr0);
        assert_eq!(chal0.to_scalar(), c0);
        let c0inv = Option::<Scalar>::from(c0.invert()).expect("challenge non-zero");

        // honest responses for the hidden values under c0
        let p_pt = ptb.generate_proof_response(chal0);
        let p_rl = rlb.generate_proof_response(chal0);
        let p_st = stb.generate_proof_response(chal0);
        let p_cl = clb.generate_proof_response(chal0);
        let b_cr = custom_cb.as_ref().map(|c| c.respond(chal0)).unwrap_or_else(|| ser(&crb.generate_constraint_response(chal0)));
        let b_mr = custom_mb.as_ref().map(|c| c.respond(chal0)).unwrap_or_else(|| ser(&mrb.generate_constraint_response(chal0)));
        let z_pt = *p_pt.conjunction_response_scalars();
        let z_rl = *p_rl.conjunction_response_scalars();
        let mut z_st = *p_st.conjunction_response_scalars();
        let mut z_cl = *p_cl.conjunction_response_scalars();
        let b_pt = tamper_pt(ser(&p_pt));
        let mut b_rl = ser(&p_rl);
        let mut b_st = ser(&p_st);
        let mut b_cl = ser(&p_cl);
        let (t_rl, t_st, t_cl) = (Tree::of(&p_rl), Tree::of(&p_st), Tree::of(&p_cl));

        // post-challenge choice of the revealed scalars
        if let Some(r) = st["rev"].as_object() {
            if r.get("nonce").and_then(|v| v.as_str()) == Some("late") { s_nonce = z_pt[1] - c0 * claimed_nonce_s; }
            if r.get("tag").and_then(|v| v.as_str()) == Some("late") { s_tag = z_cl[1] - c0 * CLOSE_SCALAR; }
        }
        // post-challenge choice of T / C of one G1 sub-proof slot (st, cl, rl)
        let mut fin_st = hst;
        let mut fin_cl = hcl;
        let mut fin_rl = hrl;
        for sim in st["sim"].as_array().cloned().unwrap_or_default() {
            let which = sim["proof"].as_str().unwrap();
            let slot = sim["slot"].as_u64().unwrap() as usize;
            let field = sim["field"].as_str().unwrap();
            // what the verifier expects for that response
            let want = match (which, slot) {
                ("cl", 1) => c0 * CLOSE_SCALAR + s_tag,
                ("cl", k) => z_st[k],
                ("st", 0) => z_pt[0],
                ("st", 3) => z_pt[3] - c0 * ca_s,
                ("st", 4) => z_pt[4] + c0 * ca_s,
                ("st", k) => z_cl[k],
                ("rl", _) => z_pt[2],
                _ => continue,
            };
            let (bytes, tplx, prefix, h, gs): (&mut Vec<u8>, &Tree, &str, G1Affine, Vec<G1Affine>) = match which {
                "st" => { z_st[slot] = want; (&mut b_st, &t_st, "commitment_proof", pkv.g1, pkv.y1s.clone()) }
                "cl" => { z_cl[slot] = want; (&mut b_cl, &t_cl, "commitment_proof", pkv.g1, pkv.y1s.clone()) }
                _ => (&mut b_rl, &t_rl, "", rev_h, vec![rev_g]),
            };
            let pth = |x: &str| if prefix.is_empty() { x.to_string() } else { format!("{}.{}", prefix, x) };
            patch(bytes, tplx, &pth(&format!("message_response_scalars.{}", slot)), &sbytes(&want));
            let view = Tree { bytes: bytes.clone(), leaves: tplx.leaves.clone() };
            let cpv = if prefix.is_empty() {
                Cp { c: view.bytes_at("commitment").unwrap().to_vec(), t: view.bytes_at("scalar_commitment").unwrap().to_vec(),
                     zbf: indep::sc(view.bytes_at("blinding_factor_response_scalar").unwrap()).unwrap(),
                     z: vec![indep::sc(view.bytes_at("message_response_scalars.0").unwrap()).unwrap()] }
            } else { Cp::from_tree(&view, prefix).unwrap() };
            let cc = G1Projective::from(indep::g1(&cpv.c).unwrap());
            let tt = G1Projective::from(indep::g1(&cpv.t).unwrap());
            let mut lhs = G1Projective::from(h) * cpv.zbf;
            for (g, zz) in gs.iter().zip(cpv.z.iter()) { lhs += G1Projective::from(g) * zz; }
            if field == "T" {
                patch(bytes, tplx, &pth("scalar_commitment"), &G1Affine::from(lhs - cc * c0).to_compressed());
            } else {
                patch(bytes, tplx, &pth("commitment"), &G1Affine::from((lhs - tt) * c0inv).to_compressed());
                match which {
                    "st" => fin_st[slot] = (want - st_cs[slot]) * c0inv,
                    "cl" => fin_cl[slot] = (want - cl_cs[slot]) * c0inv,
                    _ => fin_rl = (want - rl_cs) * c0inv,
                }
            }
        }

        // responses overridden after the challenge to those of an honest prover for the AGREED values
        let mut resp_ok = true;
        for zs in st["zset"].as_array().cloned().unwrap_or_default() {
            let which = zs["proof"].as_str().unwrap();
            let slot = zs["slot"].as_u64().unwrap() as usize;
            let (want, path) = match which {
                "st" => (c0 * base_st[slot] + st_cs[slot], format!("commitment_proof.message_response_scalars.{}", slot)),
                "cl" => (c0 * base_cl[slot] + cl_cs[slot], format!("commitment_proof.message_response_scalars.{}", slot)),
                _ => (c0 * info.old[2] + rl_cs, "message_response_scalars.0".to_string()),
            };
            match which {
                "st" => { if z_st[slot] != want { resp_ok = false; } z_st[slot] = want; patch(&mut b_st, &t_st, &path, &sbytes(&want)); }
                "cl" => { if z_cl[slot] != want { resp_ok = false; } z_cl[slot] = want; patch(&mut b_cl, &t_cl, &path, &sbytes(&want)); }
                _ => { if z_rl[0] != want { resp_ok = false; } patch(&mut b_rl, &t_rl, &path, &sbytes(&want)); }
            }
        }

        let fin = assemble(&s_nonce, &s_tag, &b_pt, &b_rl, &b_st, &b_cl, &b_cr, &b_mr);
        let (res, ch1) = submit(&fin, &mut rng);
        let accepted = res.is_some();
        let (tr1, c1) = ch1.unwrap_or((vec![], Scalar::zero()));

        // ---- independent relation atoms on the final proof under the verifier's challenge
        let ft = Tree { bytes: fin.clone(), leaves: tpl.leaves.clone() };
        let atoms = pay_atoms(&ft, m, &c1, &claimed_nonce_s, &ca_s, &tr1);

        // ---- truth of the statement for the (final) hidden values
        let truth = token_ok && hpt[1] == claimed_nonce_s
            && fin_st[0] == hpt[0] && fin_cl[0] == hpt[0]
            && fin_cl[1] == CLOSE_SCALAR
            && fin_st[2] == fin_cl[2]
            && fin_st[3] == hpt[3] - ca_s && fin_cl[3] == fin_st[3] && in_range_63(&fin_st[3])
            && fin_st[4] == hpt[4] + ca_s && fin_cl[4] == fin_st[4] && in_range_63(&fin_st[4])
            && fin_rl == hpt[2];

        // ---- on acceptance: what was signed, and does the revocation commitment hold the old lock?
        let mut sigs = json!({});
        if let Some((unrev, csig)) = res {
            let close_sig = unblind_bytes(&bincode::serialize(&csig).unwrap(), bf_cl);
            let vc = close_sig.map(|s| s.verify(&pk, &Message::new(fin_cl))).unwrap_or(false);
            let mut none_other = true;
            for i in 0..5 {
                let mut a = fin_cl;
                a[i] += Scalar::one();
                if close_sig.map(|s| s.verify(&pk, &Message::new(a))).unwrap_or(false) { none_other = false; }
            }
            // complete the payment with the REAL pair of the old state and the attacker's blinding factor
            let pair: zkabacus_crypto::revlock::RevocationPair = bincode::deserialize(&info.old_pair).unwrap();
            let rbf: zkabacus_crypto::revlock::RevocationLockBlindingFactor = bincode::deserialize(&bincode::serialize(&bf_rl).unwrap()).unwrap();
            let csig_bytes = bincode::serialize(&csig).unwrap();
            let mut bases_differ = true;
            let completes = match unrev.complete_payment(&mut rng, &pair, &rbf) {
                Ok(tok) => {
                    // two merchant signatures on tuples differing in one slot must not share their base sigma1
                    // (their quotient would be sigma1^(y_1 * difference): the token could be moved to any nonce)
                    bases_differ = bincode::serialize(&tok).unwrap()[..48] != csig_bytes[..48];
                    let ts = unblind_bytes(&bincode::serialize(&tok).unwrap(), bf_st);
                    ts.map(|s| s.verify(&pk, &Message::new(fin_st))).unwrap_or(false)
                }
                Err(_) => false,
            };
            let mut none_pair = true;
            for i in 0..5 {
                for j in 0..5 {
                    if i == j { continue; }
                    let mut a = fin_cl;
                    a[i] += Scalar::one();
                    a[j] -= Scalar::one();
                    if close_sig.map(|s| s.verify(&pk, &Message::new(a))).unwrap_or(false) { none_pair = false; }
                }
            }
            sigs = json!({"close_sig_on_hidden_close_state": vc, "no_single_slot_variation": none_other, "no_two_slot_compensation": none_pair,
                          "old_pair_completes_iff_committed": completes == (fin_rl == info.old[2]),
                          "closing_signature_and_pay_token_have_different_bases": bases_differ});
        }
        let _ = (&mut z_st, &mut z_cl, z_rl, cfg);
        json!({"ev": "game", "proof": "pay", "id": st["id"], "strategy": st["name"], "accepted": accepted, "atoms": atoms,
               "truth": truth, "token_ok": token_ok, "resp_ok": resp_ok, "digits_ok": digits_ok, "sigs": sigs,
               "challenge_changed_after_late_choice": c1 != c0, "clusters": st["clusters"]})
    }

    /// A pay proof around the all-identity blinded signature.  Such a proof cannot arrive as bytes
    /// (the decoder refuses sigma1 = identity) but is reachable in-process through the library's own
    /// prover with chosen randomness: a `Ready` customer (decoded from bytes, so its state can claim
    /// any old balance next to any well-formed pay token) runs `start` on a randomness stream whose
    /// k-th scalar draw is zero; k is found by search (the draw that re-randomises the pay token).
    pub fn pay_identity(&mut self, st: &Value) -> Value {
        let info = self.honest_ready(st["cb"].as_u64().unwrap_or(100), st["mb"].as_u64().unwrap_or(50), &[]);
        let amount = st["amount"].as_i64().unwrap_or(7);
        let mut rng = self.rng(6);
        let m: &'static merchant::Config = self.world.mers[0];
        let cfg = customer_config_of(m);
        let pk = m.signing_keypair().public_key().clone();
        let inflate = st["hpt"][3].as_str().map(|x| x != "ok").unwrap_or(false);
        let c = &self.world.chans[&info.ch];
        let tree = c.cust.tree();
        let mut rb = tree.bytes.clone();
        let mut old = info.old;
        if inflate {
            let v: u64 = 1_000_000;
            patch(&mut rb, &tree, "state.customer_balance", &v.to_le_bytes());
            old[3] = Scalar::from(v);
        }
        let token_ok = info.token.verify(&pk, &Message::new(old));
        let amt: PaymentAmount = bincode::deserialize(&amount.to_le_bytes()).unwrap();
        let ctx = info.ctx;
        let identity_enc = G1Affine::identity().to_compressed();
        let mut found = None;
        for k in 1..140usize {
            let ready: customer::Ready = bincode::deserialize(&rb).expect("crafted Ready decodes");
            let mut script = vec![crate::rngs::Draw::Generic; k - 1];
            script.push(crate::rngs::Draw::Zero);
            let mut srng = crate::rngs::Scripted::new(script, self.seed + k as u64);
            let r = std::panic::catch_unwind(std::panic::AssertUnwindSafe(|| ready.start(&mut srng, amt, &ctx, &cfg)));
            if let Ok(Ok((_started, msg))) = r {
                let t = Tree::of(&msg.pay_proof);
                if t.bytes_at("old_pay_token_proof.blinded_signature.sigma1") == Some(&identity_enc[..]) {
                    found = Some((k, msg, t));
                    break;
                }
            }
        }
        let _ = take_challenge_log();
        let (k, msg, ft) = match found {
            Some(x) => x,
            None => return json!({"ev": "game", "proof": "pay", "id": st["id"], "error": "no randomness stream yields the identity signature"}),
        };
        let nonce_s = indep::sc(&bincode::serialize(&msg.nonce).unwrap()).unwrap();
        let res = m.allow_payment(&mut rng, amt, &msg.nonce, msg.pay_proof, &ctx);
        let accepted = res.is_some();
        let (tr1, c1) = last_challenge().unwrap_or((vec![], Scalar::zero()));
        let atoms = pay_atoms(&ft, m, &c1, &nonce_s, &amount_scalar(amount), &tr1);
        json!({"ev": "game", "proof": "pay", "id": st["id"], "strategy": st["name"], "accepted": accepted, "atoms": atoms,
               "truth": token_ok, "token_ok": false, "resp_ok": true, "digits_ok": true, "sigs": {}, "zero_draw_index": k,
               "challenge_changed_after_late_choice": false, "clusters": st["clusters"]})
    }

    /// which non-response atoms of an honest PayProof are bound by the merchant's challenge
    pub fn observe_pay(&mut self) -> Value {
        let info = self.honest_ready(100, 50, &[]);
        let amount = 7i64;
        let (bytes, tpl, nonce_b) = self.honest_pay_proof(&info, amount);
        let mut rng = self.rng(5);
        let m: &'static merchant::Config = self.world.mers[0];
        let nonce: Nonce = bincode::deserialize(&nonce_b).unwrap();
        let amt: PaymentAmount = bincode::deserialize(&amount.to_le_bytes()).unwrap();
        let ctx = info.ctx;
        let run = |b: &[u8], rng: &mut StdRng| -> Option<(bool, Vec<u8>, Scalar)> {
            let _ = take_challenge_log();
            let p: PayProof = bincode::deserialize(b).ok()?;
            let r = m.allow_payment(rng, amt, &nonce, p, &ctx).is_some();
            let (t, c) = last_challenge()?;
            Some((r, t, c))
        };
        let (ok0, tr0, c0) = run(&bytes, &mut rng).expect("honest pay proof decodes");
        let mut atoms = vec![];
        for l in tpl.atoms() {
            let response = l.path.contains("response");
            let mut b = bytes.clone();
            let new = other_atom(l.len, &mut rng);
            b[l.off..l.off + l.len].copy_from_slice(&new);
            let (mut changed, dec) = match run(&b, &mut rng) {
                Some((_, _, c)) => (c != c0, true),
                None => (false, false),
            };
            if let Some(neg) = crate::bind::negated_atom(&bytes[l.off..l.off + l.len]) {
                if neg != bytes[l.off..l.off + l.len] {
                    let mut b2 = bytes.clone();
                    b2[l.off..l.off + l.len].copy_from_slice(&neg);
                    if let Some((_, _, c)) = run(&b2, &mut rng) { changed = changed && c != c0; }
                }
            }
            atoms.push(json!({"path": l.path, "len": l.len, "response": response, "hashed": changed, "decoded": dec,
                              "in_transcript": contains(&tr0, &bytes[l.off..l.off + l.len])}));
        }
        json!({"proof": "pay", "honest_accepted": ok0, "transcript_len": tr0.len(), "atoms": atoms})
    }
}

/// truth value of every relation of the specified PayProof verifier, evaluated independently on the
/// wire atoms of `ft` under challenge `c1`
pub fn pay_atoms(ft: &Tree, m: &merchant::Config, c1: &Scalar, claimed_nonce_s: &Scalar, ca_s: &Scalar, tr1: &[u8]) -> Value {
    let pk = m.signing_keypair().public_key().clone();
    let pkv = Pk::from_tree(&Tree::of(&pk), "").unwrap();
    let rpk = Pk::from_tree(&Tree::of(m.range_constraint_parameters()), "public_key").unwrap();
    let revt = Tree::of(m.revocation_commitment_parameters());
    let (rev_h, rev_g) = (indep::g1(revt.bytes_at("h").unwrap()).unwrap(), indep::g1(revt.bytes_at("gs.0").unwrap()).unwrap());
    let ft = ft;
        let sp_pt = Sp::from_tree(&ft, "old_pay_token_proof").unwrap();
        let cp_rl = Cp { c: ft.bytes_at("old_revocation_lock_proof.commitment").unwrap().to_vec(),
                         t: ft.bytes_at("old_revocation_lock_proof.scalar_commitment").unwrap().to_vec(),
                         zbf: indep::sc(ft.bytes_at("old_revocation_lock_proof.blinding_factor_response_scalar").unwrap()).unwrap(),
                         z: vec![indep::sc(ft.bytes_at("old_revocation_lock_proof.message_response_scalars.0").unwrap()).unwrap()] };
        let cp_st = Cp::from_tree(&ft, "state_proof.commitment_proof").unwrap();
        let cp_cl = Cp::from_tree(&ft, "close_state_proof.commitment_proof").unwrap();
        let (pt_wf, pt_schnorr, pt_pair) = sp_pt.relations(&pkv, c1);
        let range_atoms = |prefix: &str, expected: &Scalar| -> (bool, bool) {
            let mut all = true;
            let mut sum = Scalar::zero();
            let mut pow = Scalar::one();
            let mut j = 0;
            while let Some(sp) = Sp::from_tree(&ft, &format!("{}.digit_proofs.{}", prefix, j)) {
                let (a, b, c) = sp.relations(&rpk, c1);
                all = all && a && b && c;
                sum += pow * sp.cp.z[0];
                pow *= Scalar::from(128u64);
                j += 1;
            }
            (all && j == 9, sum == *expected)
        };
        let (cr_digits, cr_sum) = range_atoms("customer_balance_proof", &cp_st.z[3]);
        let (mr_digits, mr_sum) = range_atoms("merchant_balance_proof", &cp_st.z[4]);
        let sn = indep::sc(ft.bytes_at("old_nonce_commitment_scalar").unwrap()).unwrap();
        let stg = indep::sc(ft.bytes_at("close_tag_commitment_scalar").unwrap()).unwrap();
        let z = &sp_pt.cp.z;
        let atoms = json!({
            "token_sigma1_not_identity": pt_wf, "token_schnorr": pt_schnorr, "token_pairing": pt_pair,
            "schnorr_revlock": cp_rl.schnorr_g1(&rev_h, &[rev_g], c1),
            "schnorr_state": cp_st.schnorr_g1(&pkv.g1, &pkv.y1s, c1),
            "schnorr_close": cp_cl.schnorr_g1(&pkv.g1, &pkv.y1s, c1),
            "cb_digits": cr_digits, "cb_range_link": cr_sum, "mb_digits": mr_digits, "mb_range_link": mr_sum,
            "cid_state_close": cp_st.z[0] == cp_cl.z[0], "cid_close_token": cp_cl.z[0] == z[0],
            "tag_close": cp_cl.z[1] == *c1 * CLOSE_SCALAR + stg,
            "old_locks_equal": cp_rl.z[0] == z[2],
            "new_locks_equal": cp_st.z[2] == cp_cl.z[2],
            "nonce_token": z[1] == *c1 * claimed_nonce_s + sn,
            "cb_state_close": cp_st.z[3] == cp_cl.z[3], "mb_state_close": cp_st.z[4] == cp_cl.z[4],
            "cb_updated": cp_st.z[3] == z[3] - *c1 * ca_s, "mb_updated": cp_st.z[4] == z[4] + *c1 * ca_s,
        });

    atoms
}

mod erased {
    /// tiny helper: bincode-serialize any of the proof objects behind one call site
    pub trait Ser { fn ser(&self) -> Vec<u8>; }
    impl<T: serde::Serialize> Ser for T {
        fn ser(&self) -> Vec<u8> { bincode::serialize(self).unwrap() }
    }
}
