//! Transcript binding (C12) and tuple binding (C06).
//!
//! C12: for every ChallengeInput type of the library and every non-response atom of its wire form,
//! replace the atom by another valid atom and observe whether the challenge changes and whether the
//! atom's bytes occur in the recorded transcript; builder challenge = proof challenge; challenge =
//! SHA3-256(transcript) reduced.  For the composite proofs the merchant's own transcript is observed
//! through the hook (game.rs).
//! C06: an honest establish / pay proof is verified under tuples that differ in exactly one
//! component; closing messages with one field substituted are presented to the close check.
use crate::game::{patch, GameEnv};
use crate::indep;
use crate::proto::{customer_config_of, Cust};
use crate::rec::Tree;
use crate::rngs::seeded;
use bls12_381::{G1Affine, G1Projective, G2Affine, G2Projective, Scalar};
use ff::Field;
use group::Group;
use rand::rngs::StdRng;
use rand::RngCore;
use serde::de::DeserializeOwned;
use serde::Serialize;
use serde_json::{json, Value};
use zkabacus_crypto::customer::ClosingMessage;
use zkabacus_crypto::{
    merchant, ChannelId, Context, CustomerBalance, EstablishProof, MerchantBalance, Nonce, PayProof,
    PaymentAmount, Verification,
};
use zkchannels_crypto::pedersen::PedersenParameters;
use zkchannels_crypto::pointcheval_sanders::{KeyPair, PublicKey};
use zkchannels_crypto::proofs::verif_hooks::take_challenge_log;
use zkchannels_crypto::proofs::{
    ChallengeBuilder, ChallengeInput, CommitmentProofBuilder, RangeConstraintBuilder,
    RangeConstraintParameters, SignatureProofBuilder, SignatureRequestProofBuilder,
};
use zkchannels_crypto::{BlindingFactor, Message};

fn other_atom(len: usize, rng: &mut StdRng) -> Vec<u8> {
    match len {
        32 => Scalar::random(&mut *rng).to_bytes().to_vec(),
        48 => G1Affine::from(G1Projective::random(&mut *rng)).to_compressed().to_vec(),
        96 => G2Affine::from(G2Projective::random(&mut *rng)).to_compressed().to_vec(),
        _ => panic!("unexpected atom length {}", len),
    }
}
/// a RELATED valid atom: the negation of a group element (sign bit of the compressed form) / of a scalar
pub fn negated_atom(orig: &[u8]) -> Option<Vec<u8>> {
    match orig.len() {
        32 => indep::sc(orig).map(|s| (-s).to_bytes().to_vec()),
        48 => indep::g1(orig).map(|p| (-p).to_compressed().to_vec()),
        96 => indep::g2(orig).map(|p| (-p).to_compressed().to_vec()),
        _ => None,
    }
}
fn contains(hay: &[u8], needle: &[u8]) -> bool {
    hay.windows(needle.len()).any(|w| w == needle)
}

/// challenge of a single ChallengeInput object, with the transcript recorded by the hook
fn challenge_of<T: ChallengeInput>(x: &T) -> (Vec<u8>, Scalar) {
    let _ = take_challenge_log();
    let c = ChallengeBuilder::new().with(x).finish();
    let log = take_challenge_log();
    (log.into_iter().last().map(|e| e.0).unwrap_or_default(), c.to_scalar())
}

/// every atom of the wire form of `obj`: is it bound by the challenge derived from the object?
fn atoms_bound<T: Serialize + DeserializeOwned + ChallengeInput>(ty: &str, obj: &T, rng: &mut StdRng, out: &mut Vec<Value>, max_atoms: usize) {
    let tree = Tree::of(obj);
    let (tr0, c0) = challenge_of(obj);
    // the two documented ways of feeding an input (`with` / `with_bytes`: "conveniently chainable variants" of `consume` /
    // `consume_bytes`) derive the same challenge
    let c_consume = { let mut b = ChallengeBuilder::new(); b.consume(obj); b.finish().to_scalar() };
    let c_mixed = { let mut b = ChallengeBuilder::new().with_bytes(b"prefix"); b.consume(obj); b.consume_bytes(b"suffix"); b.finish().to_scalar() };
    let c_mixed2 = { let mut b = ChallengeBuilder::new(); b.consume_bytes(b"prefix"); b.with(obj).with_bytes(b"suffix").finish().to_scalar() };
    let _ = take_challenge_log();
    out.push(json!({"ev": "hash", "type": ty, "challenge_is_sha3": indep::challenge_of_transcript(&tr0) == c0, "transcript_len": tr0.len(),
                    "with_eq_consume": c_consume == c0 && c_mixed == c_mixed2}));
    let atoms: Vec<_> = tree.atoms().cloned().collect();
    let step = (atoms.len() / max_atoms.max(1)).max(1);
    for (i, l) in atoms.iter().enumerate() {
        // large parameter sets: first, last and every step-th atom
        if !(i % step == 0 || i + 1 == atoms.len() || i < 4) {
            continue;
        }
        let response = l.path.contains("response");
        let mut b = tree.bytes.clone();
        let new = other_atom(l.len, rng);
        b[l.off..l.off + l.len].copy_from_slice(&new);
        let (dec, mut changed) = match bincode::deserialize::<T>(&b) {
            Ok(o) => (true, challenge_of(&o).1 != c0),
            Err(_) => (false, false),
        };
        // ... and by a RELATED atom (its negation: same x-coordinate / same absolute value)
        if let Some(neg) = negated_atom(&tree.bytes[l.off..l.off + l.len]) {
            if neg != tree.bytes[l.off..l.off + l.len] {
                let mut b2 = tree.bytes.clone();
                b2[l.off..l.off + l.len].copy_from_slice(&neg);
                if let Ok(o) = bincode::deserialize::<T>(&b2) {
                    changed = changed && challenge_of(&o).1 != c0;
                }
            }
        }
        out.push(json!({"ev": "atom", "type": ty, "path": l.path, "role": if response { "response" } else { "nonresponse" },
                        "in_transcript": contains(&tr0, &tree.bytes[l.off..l.off + l.len]), "changed": changed, "decodes": dec}));
    }
    siblings_bound(ty, obj, out);
    // three consecutive first-message atoms of one size (a, b, c): the objects with b := a and with b := c differ, so
    // must their challenges (an absorber that drops a repeated neighbour maps both to (a, c))
    let nr: Vec<_> = atoms.iter().filter(|l| !l.path.contains("response")).cloned().collect();
    let mut tried = 0;
    for w in nr.windows(3) {
        if tried >= 6 { break; }
        if !(w[0].len == w[1].len && w[1].len == w[2].len && w[0].off + w[0].len == w[1].off && w[1].off + w[1].len == w[2].off) { continue; }
        let (a, c) = (tree.bytes[w[0].off..w[0].off + w[0].len].to_vec(), tree.bytes[w[2].off..w[2].off + w[2].len].to_vec());
        if a == c { continue; }
        let mut b1 = tree.bytes.clone();
        b1[w[1].off..w[1].off + w[1].len].copy_from_slice(&a);
        let mut b2 = tree.bytes.clone();
        b2[w[1].off..w[1].off + w[1].len].copy_from_slice(&c);
        if let (Ok(o1), Ok(o2)) = (bincode::deserialize::<T>(&b1), bincode::deserialize::<T>(&b2)) {
            tried += 1;
            out.push(json!({"ev": "atom", "type": ty, "path": format!("{} := {} versus {} := {}", w[1].path, w[0].path, w[1].path, w[2].path), "role": "nonresponse",
                            "in_transcript": true, "changed": challenge_of(&o1).1 != challenge_of(&o2).1, "decodes": true}));
        }
    }
}

/// Sibling sub-objects (array elements `P.0`, `P.1`, ...) that carry first-message atoms: exchanging two of them, or
/// overwriting one with a copy of another, must change the challenge (an order-insensitive or cancelling combination of
/// per-element digests would not).
fn siblings_bound<T: Serialize + DeserializeOwned + ChallengeInput>(ty: &str, obj: &T, out: &mut Vec<Value>) {
    let tree = Tree::of(obj);
    let (_, c0) = challenge_of(obj);
    let mut groups: std::collections::BTreeMap<String, usize> = std::collections::BTreeMap::new();
    for l in &tree.leaves {
        if l.path.contains("response") { continue; }
        let comps: Vec<&str> = l.path.split('.').collect();
        for j in 0..comps.len() {
            if let Ok(i) = comps[j].parse::<usize>() {
                let e = groups.entry(comps[..j].join(".")).or_insert(0);
                if i + 1 > *e { *e = i + 1; }
            }
        }
    }
    for (prefix, n) in groups {
        if n < 2 { continue; }
        let name = |i: usize| if prefix.is_empty() { format!("{}", i) } else { format!("{}.{}", prefix, i) };
        let mut pairs = vec![(0usize, 1usize)];
        if n > 2 { pairs.push((n - 2, n - 1)); pairs.push((0, n - 1)); }
        for (a, b) in pairs {
            let (sa, sb) = match (tree.span(&name(a)), tree.span(&name(b))) { (Some(x), Some(y)) => (x, y), _ => continue };
            if sa.1 - sa.0 != sb.1 - sb.0 { continue; }
            let (ba, bb) = (tree.bytes[sa.0..sa.1].to_vec(), tree.bytes[sb.0..sb.1].to_vec());
            if ba == bb { continue; }
            for kind in ["exchanged", "second overwritten with the first"] {
                let mut bts = tree.bytes.clone();
                bts[sb.0..sb.1].copy_from_slice(&ba);
                if kind == "exchanged" { bts[sa.0..sa.1].copy_from_slice(&bb); }
                let (dec, changed) = match bincode::deserialize::<T>(&bts) {
                    Ok(o) => (true, challenge_of(&o).1 != c0),
                    Err(_) => (false, false),
                };
                out.push(json!({"ev": "atom", "type": ty, "path": format!("{} and {} {}", name(a), name(b), kind), "role": "nonresponse",
                                "in_transcript": true, "changed": changed || !dec, "decodes": true}));
            }
        }
    }
}

macro_rules! lib_types_n {
    ($n:literal, $rng:expr, $out:expr) => {{
        let rng: &mut StdRng = $rng;
        let kp = KeyPair::<$n>::new(rng);
        let pk: PublicKey<$n> = kp.public_key().clone();
        atoms_bound(&format!("PublicKey<{}>", $n), &pk, rng, $out, 64);
        let p1 = PedersenParameters::<G1Projective, $n>::new(rng);
        let p2 = PedersenParameters::<G2Projective, $n>::new(rng);
        atoms_bound(&format!("PedersenParameters<G1,{}>", $n), &p1, rng, $out, 64);
        atoms_bound(&format!("PedersenParameters<G2,{}>", $n), &p2, rng, $out, 64);
        let msg = Message::<$n>::random(rng);
        let sig = msg.sign(rng, &kp);
        atoms_bound("Signature", &sig, rng, $out, 8);
        let bf0 = BlindingFactor::new(rng);
        let bs = sig.blind_and_randomize(rng, bf0);
        atoms_bound("BlindedSignature", &bs, rng, $out, 8);
        let bf1 = BlindingFactor::new(rng);
        let bm = msg.blind(&pk, bf1);
        atoms_bound("BlindedMessage", &bm, rng, $out, 8);
        let bf2 = BlindingFactor::new(rng);
        atoms_bound("Commitment<G1>", &msg.commit(&p1, bf2), rng, $out, 8);
        atoms_bound("Commitment<G2>", &msg.commit(&p2, bf2), rng, $out, 8);
        // proofs: builder challenge = proof challenge, and every first-message atom is bound
        {
            let b = CommitmentProofBuilder::<G1Projective, $n>::generate_proof_commitments(rng, msg.clone(), &[None; $n], &p1);
            let (_, cb) = challenge_of(&b);
            let ch = ChallengeBuilder::new().with(&b).finish();
            let p = b.generate_proof_response(ch);
            let (_, cp) = challenge_of(&p);
            $out.push(json!({"ev": "pair", "type": format!("CommitmentProof<G1,{}>", $n), "builder_eq_proof": cb == cp, "verifies": p.verify_knowledge_of_opening(&p1, ch)}));
            atoms_bound(&format!("CommitmentProof<G1,{}>", $n), &p, rng, $out, 64);
        }
        {
            let b = CommitmentProofBuilder::<G2Projective, $n>::generate_proof_commitments(rng, msg.clone(), &[None; $n], &p2);
            let (_, cb) = challenge_of(&b);
            let ch = ChallengeBuilder::new().with(&b).finish();
            let p = b.generate_proof_response(ch);
            let (_, cp) = challenge_of(&p);
            $out.push(json!({"ev": "pair", "type": format!("CommitmentProof<G2,{}>", $n), "builder_eq_proof": cb == cp, "verifies": p.verify_knowledge_of_opening(&p2, ch)}));
            atoms_bound(&format!("CommitmentProof<G2,{}>", $n), &p, rng, $out, 64);
        }
        {
            let m2 = Message::<$n>::random(rng);
            let s2 = m2.sign(rng, &kp);
            let b = SignatureProofBuilder::<$n>::generate_proof_commitments(rng, m2, s2, &[None; $n], &pk);
            let (_, cb) = challenge_of(&b);
            let ch = ChallengeBuilder::new().with(&b).finish();
            let p = b.generate_proof_response(ch);
            let (_, cp) = challenge_of(&p);
            $out.push(json!({"ev": "pair", "type": format!("SignatureProof<{}>", $n), "builder_eq_proof": cb == cp, "verifies": p.verify_knowledge_of_signature(&pk, ch)}));
            atoms_bound(&format!("SignatureProof<{}>", $n), &p, rng, $out, 64);
        }
        {
            let b = SignatureRequestProofBuilder::<$n>::generate_proof_commitments(rng, msg.clone(), &[None; $n], &pk);
            let (_, cb) = challenge_of(&b);
            let ch = ChallengeBuilder::new().with(&b).finish();
            let p = b.generate_proof_response(ch);
            let (_, cp) = challenge_of(&p);
            $out.push(json!({"ev": "pair", "type": format!("SignatureRequestProof<{}>", $n), "builder_eq_proof": cb == cp, "verifies": p.verify_knowledge_of_opening(&pk, ch).is_some()}));
            atoms_bound(&format!("SignatureRequestProof<{}>", $n), &p, rng, $out, 64);
        }
    }};
}

/// C12, library level
pub fn transcript_lib(seed: u64, thorough: bool) -> Vec<Value> {
    let mut rng = seeded(seed, 81);
    let mut out = vec![];
    // primitive inputs
    for (ty, len) in [("Scalar", 32usize), ("G1Affine", 48), ("G2Affine", 96)] {
        let a = other_atom(len, &mut rng);
        let b = other_atom(len, &mut rng);
        let ch = |x: &[u8]| -> (Vec<u8>, Scalar) {
            match len {
                32 => challenge_of(&indep::sc(x).unwrap()),
                48 => challenge_of(&indep::g1(x).unwrap()),
                _ => challenge_of(&indep::g2(x).unwrap()),
            }
        };
        let (t0, c0) = ch(&a);
        let (_, c1) = ch(&b);
        out.push(json!({"ev": "atom", "type": ty, "path": "", "role": "nonresponse", "in_transcript": contains(&t0, &a), "changed": c0 != c1, "decodes": true}));
        if len == 48 {
            let (t2, c2) = challenge_of(&G1Projective::from(indep::g1(&a).unwrap()));
            out.push(json!({"ev": "atom", "type": "G1Projective", "path": "", "role": "nonresponse", "in_transcript": contains(&t2, &a), "changed": c2 != c1, "decodes": true}));
        }
        if len == 96 {
            let (t2, c2) = challenge_of(&G2Projective::from(indep::g2(&a).unwrap()));
            out.push(json!({"ev": "atom", "type": "G2Projective", "path": "", "role": "nonresponse", "in_transcript": contains(&t2, &a), "changed": c2 != c1, "decodes": true}));
        }
    }
    lib_types_n!(1, &mut rng, &mut out);
    lib_types_n!(3, &mut rng, &mut out);
    lib_types_n!(5, &mut rng, &mut out);
    if thorough {
        lib_types_n!(2, &mut rng, &mut out);
        lib_types_n!(8, &mut rng, &mut out);
        lib_types_n!(13, &mut rng, &mut out);
    }
    // raw byte inputs (contexts, public values) of every length: extending by zero bytes, dropping the last byte and
    // moving a byte across the boundary of two consecutive inputs of DIFFERENT kinds all change the challenge
    for len in [0usize, 1, 9, 15, 16, 17, 31, 32, 33, 40, 63, 64, 65] {
        let mut b = vec![0u8; len];
        rng.fill_bytes(&mut b);
        let c = |x: &[u8]| ChallengeBuilder::new().with_bytes(x).finish().to_scalar();
        let c0 = c(&b);
        for k in [1usize, 2, 7, 16] {
            let mut e = b.clone();
            e.extend(std::iter::repeat(0u8).take(k));
            out.push(json!({"ev": "bytesext", "len": len, "variant": format!("{} zero byte(s) appended", k), "changed": c(&e) != c0}));
        }
        if len > 0 {
            let mut z = b.clone();
            z[len - 1] = 0;
            out.push(json!({"ev": "bytesext", "len": len, "variant": "last byte zero vs last byte dropped", "changed": c(&z) != c(&b[..len - 1])}));
        }
    }
    let _ = take_challenge_log();
    // range constraint parameters, builder and constraint
    let rp = RangeConstraintParameters::new(&mut rng);
    atoms_bound("RangeConstraintParameters", &rp, &mut rng, &mut out, if thorough { 1000 } else { 48 });
    for v in [0i64, 1, 127, 128, i64::MAX] {
        let mk = |seed: u64| RangeConstraintBuilder::generate_constraint_commitments(v, &rp, &mut seeded(seed, 5)).unwrap();
        let (_, cb) = challenge_of(&mk(seed));
        let ch = ChallengeBuilder::new().with(&mk(seed)).finish();
        let p = mk(seed).generate_constraint_response(ch);
        let (_, cp) = challenge_of(&p);
        out.push(json!({"ev": "pair", "type": "RangeConstraint", "builder_eq_proof": cb == cp, "verifies": true}));
        if v == 128 || thorough {
            atoms_bound("RangeConstraint", &p, &mut rng, &mut out, 1000);
        }
    }
    out
}

impl GameEnv {
    /// C12 at the zkAbacus level: prover challenge = verifier challenge, every context byte matters
    pub fn transcript_abacus(&mut self, thorough: bool) -> Vec<Value> {
        let mut out = vec![];
        let mut rng = seeded(self.seed, 82);
        let m: &'static merchant::Config = self.world.mers[0];
        let cfg = customer_config_of(m);
        let pk = m.signing_keypair().public_key().clone();
        let cb = CustomerBalance::try_new(11).unwrap();
        let mb = MerchantBalance::try_new(22).unwrap();
        let cid = {
            use zkabacus_crypto::{CustomerRandomness, MerchantRandomness};
            ChannelId::new(MerchantRandomness::new(&mut rng), CustomerRandomness::new(&mut rng), &pk, b"m", b"c")
        };
        let mut ctx_in = [0u8; 24];
        rng.fill_bytes(&mut ctx_in);
        let ctx = Context::new(&ctx_in);
        let _ = take_challenge_log();
        let (_req, proof) = zkabacus_crypto::customer::Requested::new(&mut rng, &cfg, cid, mb, cb, &ctx);
        let prover = take_challenge_log().into_iter().last();
        let bytes = bincode::serialize(&proof).unwrap();
        let ok = m.initialize(&mut rng, &cid, cb, mb, proof, &ctx).is_some();
        let verifier = take_challenge_log().into_iter().last();
        let eq = match (&prover, &verifier) { (Some(a), Some(b)) => a.1 == b.1, _ => false };
        out.push(json!({"ev": "pair", "type": "EstablishProof", "builder_eq_proof": eq, "verifies": ok}));
        let c0 = verifier.map(|v| v.1);
        let positions: Vec<usize> = if thorough { (0..ctx_in.len()).collect() } else { vec![0, 1, 11, 23] };
        for pos in positions {
            let mut c2 = ctx_in;
            c2[pos] ^= 1;
            let p: EstablishProof = bincode::deserialize(&bytes).unwrap();
            let acc = m.initialize(&mut rng, &cid, cb, mb, p, &Context::new(&c2)).is_some();
            let c1 = take_challenge_log().into_iter().last().map(|v| v.1);
            out.push(json!({"ev": "ctxbyte", "proof": "establish", "pos": pos, "changed": c1 != c0, "accepted": acc}));
        }
        // many different contexts (lengths 0..40, structured and random bytes): the verifier's challenges for one
        // recorded proof are pairwise different - no class of contexts is identified
        {
            let mut seen = std::collections::HashSet::new();
            let k = if thorough { 400usize } else { 96 };
            for i in 0..k {
                let cbytes: Vec<u8> = match i % 3 {
                    0 => format!("zkAbacus session transcript #{:03}", i).into_bytes(),
                    1 => { let mut b = vec![0u8; i % 41]; rng.fill_bytes(&mut b); b.push(i as u8); b.push((i >> 8) as u8); b }
                    _ => { let mut b = vec![0u8; 32]; rng.fill_bytes(&mut b); b }
                };
                let p: EstablishProof = bincode::deserialize(&bytes).unwrap();
                let _ = take_challenge_log();
                let _ = m.initialize(&mut rng, &cid, cb, mb, p, &Context::new(&cbytes));
                if let Some(c) = take_challenge_log().into_iter().last() { seen.insert(c.1); }
            }
            // long contexts built from repeated / re-hashed blocks (second preimages of a block-wise or tree-wise digest)
            let mut long = 0usize;
            {
                use sha3::{Digest, Sha3_256};
                let mut blocks: Vec<Vec<u8>> = (0..3).map(|_| { let mut b = vec![0u8; 1024]; rng.fill_bytes(&mut b); b }).collect();
                blocks.push(blocks[2].clone());
                let cat = |ix: &[usize]| -> Vec<u8> { ix.iter().flat_map(|&i| blocks[i].clone()).collect() };
                let mut h2 = Sha3_256::digest(&blocks[0]).to_vec();
                h2.extend_from_slice(&Sha3_256::digest(&blocks[1]));
                let variants: Vec<Vec<u8>> = vec![cat(&[0, 1, 2]), cat(&[0, 1, 2, 3]), cat(&[0, 1]), h2, cat(&[0, 1, 1]), cat(&[1, 0, 2]), cat(&[0]), cat(&[0, 0])];
                for cbytes in variants {
                    let p: EstablishProof = bincode::deserialize(&bytes).unwrap();
                    let _ = take_challenge_log();
                    let _ = m.initialize(&mut rng, &cid, cb, mb, p, &Context::new(&cbytes));
                    if let Some(c) = take_challenge_log().into_iter().last() { seen.insert(c.1); }
                    long += 1;
                }
            }
            out.push(json!({"ev": "ctxset", "proof": "establish", "contexts": k + long, "distinct_challenges": seen.len()}));
        }
        // pay
        let info = self.honest_ready(100, 50, &[]);
        let c = &self.world.chans[&info.ch];
        let ccfg = &self.world.ccfgs[c.mer];
        let ready = match Cust::from_bytes("ready", &c.cust.to_bytes()).unwrap() { Cust::Ready(r) => r, _ => unreachable!() };
        let amt: PaymentAmount = bincode::deserialize(&5i64.to_le_bytes()).unwrap();
        let _ = take_challenge_log();
        let (_st, msg) = ready.start(&mut rng, amt, &ctx, ccfg).ok().unwrap();
        let prover = take_challenge_log().into_iter().last();
        let pbytes = bincode::serialize(&msg.pay_proof).unwrap();
        let ok = m.allow_payment(&mut rng, amt, &msg.nonce, msg.pay_proof, &ctx).is_some();
        let verifier = take_challenge_log().into_iter().last();
        let eq = match (&prover, &verifier) { (Some(a), Some(b)) => a.1 == b.1, _ => false };
        out.push(json!({"ev": "pair", "type": "PayProof", "builder_eq_proof": eq, "verifies": ok}));
        let c0 = verifier.map(|v| v.1);
        let positions: Vec<usize> = if thorough { (0..ctx_in.len()).collect() } else { vec![0, 12, 23] };
        for pos in positions {
            let mut c2 = ctx_in;
            c2[pos] ^= 0x80;
            let p: PayProof = bincode::deserialize(&pbytes).unwrap();
            let acc = m.allow_payment(&mut rng, amt, &msg.nonce, p, &Context::new(&c2)).is_some();
            let c1 = take_challenge_log().into_iter().last().map(|v| v.1);
            out.push(json!({"ev": "ctxbyte", "proof": "pay", "pos": pos, "changed": c1 != c0, "accepted": acc}));
        }
        // every non-response atom of both composite proofs (observed through the merchant's own verifier)
        for (name, obs) in [("EstablishProof", self.observe_establish()), ("PayProof", self.observe_pay())] {
            for a in obs["atoms"].as_array().unwrap() {
                out.push(json!({"ev": "atom", "type": name, "path": a["path"], "role": if a["response"].as_bool().unwrap() { "response" } else { "nonresponse" },
                                "in_transcript": a["in_transcript"], "changed": a["hashed"], "decodes": a["decoded"]}));
            }
        }
        out
    }

    // ================================================================== C06

    /// honest proofs verified under tuples differing in exactly one component
    pub fn tuple_binding(&mut self, thorough: bool) -> Vec<Value> {
        let mut out = vec![];
        let mut rng = seeded(self.seed, 83);
        let m: &'static merchant::Config = self.world.mers[0];
        let cfg = customer_config_of(m);
        let pk = m.signing_keypair().public_key().clone();
        let clone_kp = |m: &merchant::Config| -> KeyPair<5> { bincode::deserialize(&bincode::serialize(m.signing_keypair()).unwrap()).unwrap() };
        // merchant configurations sharing all parts but one
        let other_key = merchant::Config::from_parts(KeyPair::<5>::new(&mut rng), m.revocation_commitment_parameters().clone(), m.range_constraint_parameters().clone());
        let other_rev = merchant::Config::from_parts(clone_kp(m), zkabacus_crypto::CommitmentParameters::new(&mut rng), m.range_constraint_parameters().clone());
        let other_range = merchant::Config::from_parts(clone_kp(m), m.revocation_commitment_parameters().clone(), RangeConstraintParameters::new(&mut rng));
        // same range key, two digit signatures swapped
        let swapped_range = {
            let t = Tree::of(m.range_constraint_parameters());
            let mut b = t.bytes.clone();
            let (a0, a1) = t.span("digit_signatures.0").unwrap();
            let (b0, b1) = t.span("digit_signatures.1").unwrap();
            let s0 = t.bytes[a0..a1].to_vec();
            let s1 = t.bytes[b0..b1].to_vec();
            b[a0..a1].copy_from_slice(&s1);
            b[b0..b1].copy_from_slice(&s0);
            let rp: RangeConstraintParameters = bincode::deserialize(&b).unwrap();
            merchant::Config::from_parts(clone_kp(m), m.revocation_commitment_parameters().clone(), rp)
        };
        // same range key, one digit signature re-randomised (still a valid parameter set)
        let rerand_range = {
            let t = Tree::of(m.range_constraint_parameters());
            let (a0, a1) = t.span("digit_signatures.5").unwrap();
            let mut sig: zkchannels_crypto::pointcheval_sanders::Signature = bincode::deserialize(&t.bytes[a0..a1]).unwrap();
            sig.randomize(&mut rng);
            let mut b = t.bytes.clone();
            b[a0..a1].copy_from_slice(&bincode::serialize(&sig).unwrap());
            let rp: RangeConstraintParameters = bincode::deserialize(&b).unwrap();
            merchant::Config::from_parts(clone_kp(m), m.revocation_commitment_parameters().clone(), rp)
        };

        // same key pair with ONE field of the public key replaced by another valid group element (the secret
        // half and every other field untouched): g1, Y_i, g2, X~, Y~_i; and a RELATED key (x + 1: X1 + g1,
        // X~ + g2, everything else shared)
        let key_fields: Vec<String> = {
            let mut v = vec!["pk.g1".to_string(), "pk.g2".to_string(), "pk.x2".to_string()];
            for i in 0..5 { v.push(format!("pk.y1s.{}", i)); v.push(format!("pk.y2s.{}", i)); }
            v
        };
        let kt = Tree::of(m.signing_keypair());
        let shifted = |b: &[u8]| -> Vec<u8> {
            if b.len() == 48 {
                G1Affine::from(G1Projective::from(indep::g1(b).unwrap()) + G1Projective::generator()).to_compressed().to_vec()
            } else {
                G2Affine::from(G2Projective::from(indep::g2(b).unwrap()) + G2Projective::generator()).to_compressed().to_vec()
            }
        };
        let with_key_bytes = |b: &[u8]| -> Option<merchant::Config> {
            let kp: KeyPair<5> = bincode::deserialize(b).ok()?;
            Some(merchant::Config::from_parts(kp, m.revocation_commitment_parameters().clone(), m.range_constraint_parameters().clone()))
        };
        let mut key_variants: Vec<(String, bool, merchant::Config)> = vec![];
        for f in &key_fields {
            let l = kt.get(f).unwrap_or_else(|| panic!("key pair layout: no leaf {}", f));
            let mut b = kt.bytes.clone();
            let new = shifted(&kt.bytes[l.off..l.off + l.len]);
            b[l.off..l.off + l.len].copy_from_slice(&new);
            if let Some(c) = with_key_bytes(&b) { key_variants.push((format!("public key field {} replaced", f), l.len == 48, c)); }
        }
        {
            // related key: x' = x + 1
            let mut b = kt.bytes.clone();
            let lx = kt.get("sk.x").expect("sk.x");
            let x = indep::sc(&kt.bytes[lx.off..lx.off + 32]).unwrap() + Scalar::one();
            b[lx.off..lx.off + 32].copy_from_slice(&x.to_bytes());
            let g1 = G1Projective::from(indep::g1(kt.bytes_at("pk.g1").unwrap()).unwrap());
            let g2 = G2Projective::from(indep::g2(kt.bytes_at("pk.g2").unwrap()).unwrap());
            let l1 = kt.get("sk.x1").expect("sk.x1");
            let x1 = G1Projective::from(indep::g1(&kt.bytes[l1.off..l1.off + 48]).unwrap()) + g1;
            b[l1.off..l1.off + 48].copy_from_slice(&G1Affine::from(x1).to_compressed());
            let l2 = kt.get("pk.x2").expect("pk.x2");
            let x2 = G2Projective::from(indep::g2(&kt.bytes[l2.off..l2.off + 96]).unwrap()) + g2;
            b[l2.off..l2.off + 96].copy_from_slice(&G2Affine::from(x2).to_compressed());
            if let Some(c) = with_key_bytes(&b) { key_variants.push(("related key pair: signing secret x + 1, same g1, g2, Y_i, Y~_i".to_string(), false, c)); }
        }
        assert_eq!(key_variants.len(), 14, "every key variant decodes");

        // ---- establish
        let cbv = 1000u64;
        let mbv = 77u64;
        let cb = CustomerBalance::try_new(cbv).unwrap();
        let mb = MerchantBalance::try_new(mbv).unwrap();
        let cid = {
            use zkabacus_crypto::{CustomerRandomness, MerchantRandomness};
            ChannelId::new(MerchantRandomness::new(&mut rng), CustomerRandomness::new(&mut rng), &pk, b"m", b"c")
        };
        let ctx_in = *b"context of the establish session";
        let ctx = Context::new(&ctx_in);
        let (_req, proof) = zkabacus_crypto::customer::Requested::new(&mut rng, &cfg, cid, mb, cb, &ctx);
        let bytes = bincode::serialize(&proof).unwrap();
        let mut est = |name: &str, variant: String, in_eq: bool, mm: &merchant::Config, cid: &ChannelId, cb: u64, mb: u64, ctx: &Context, rng: &mut StdRng| {
            let p: EstablishProof = bincode::deserialize(&bytes).unwrap();
            let _ = take_challenge_log();
            let acc = mm.initialize(rng, cid, CustomerBalance::try_new(cb).unwrap(), MerchantBalance::try_new(mb).unwrap(), p, ctx).is_some();
            let c = take_challenge_log().into_iter().last().map(|v| v.1);
            json!({"ev": "tuple", "proof": "establish", "component": name, "variant": variant, "in_equation": in_eq, "accepted": acc, "challenge": c.map(|c| crate::util::hex(&c))})
        };
        let base = est("none", "original".into(), false, m, &cid, cbv, mbv, &ctx, &mut rng);
        let c0 = base["challenge"].clone();
        out.push(base);
        let mut push = |mut e: Value| { e["challenge_changed"] = json!(e["challenge"] != c0); out.push(e); };
        push(est("key", "fresh key pair".into(), true, &other_key, &cid, cbv, mbv, &ctx, &mut rng));
        for (name, g1_half, c) in &key_variants {
            // the establish equations use only the G1 half; the G2 half is bound through the challenge alone
            push(est("key", name.clone(), *g1_half, c, &cid, cbv, mbv, &ctx, &mut rng));
        }
        let cidb = cid.to_bytes();
        let bits: Vec<usize> = if thorough { (0..256).collect() } else { vec![0, 1, 7, 8, 63, 64, 128, 200, 252, 253, 254, 255] };
        for bit in bits {
            let mut b = cidb;
            b[bit / 8] ^= 1 << (bit % 8);
            let c2: ChannelId = bincode::deserialize(&b).unwrap();
            push(est("channel_id", format!("bit {} flipped", bit), true, m, &c2, cbv, mbv, &ctx, &mut rng));
        }
        let mut fresh = [0u8; 32];
        rng.fill_bytes(&mut fresh);
        push(est("channel_id", "fresh".into(), true, m, &bincode::deserialize(&fresh).unwrap(), cbv, mbv, &ctx, &mut rng));
        for (v, d) in [(cbv + 1, "+1"), (cbv - 1, "-1"), (0, "zero"), (mbv, "merchant's balance"), (i64::MAX as u64, "2^63-1")] {
            push(est("customer_balance", d.into(), true, m, &cid, v, mbv, &ctx, &mut rng));
        }
        for (v, d) in [(mbv + 1, "+1"), (mbv - 1, "-1"), (0, "zero"), (cbv, "customer's balance")] {
            push(est("merchant_balance", d.into(), true, m, &cid, cbv, v, &ctx, &mut rng));
        }
        let positions: Vec<usize> = if thorough { (0..ctx_in.len()).collect() } else { vec![0, 15, 31] };
        for pos in positions {
            let mut c2 = ctx_in;
            c2[pos] ^= 1;
            push(est("context", format!("byte {} differs", pos), false, m, &cid, cbv, mbv, &Context::new(&c2), &mut rng));
        }
        push(est("context", "empty".into(), false, m, &cid, cbv, mbv, &Context::new(b""), &mut rng));
        push(est("context", "extended".into(), false, m, &cid, cbv, mbv, &Context::new(b"context of the establish session!"), &mut rng));

        // a context of another length, and the context that is its SHA3-256 digest (a verifier that treats a
        // 32-byte input as "already hashed" identifies the two)
        {
            use sha3::{Digest, Sha3_256};
            let t2 = b"a session context of 31 bytes !";
            let ctx2 = Context::new(t2);
            let (_r2, proof2) = zkabacus_crypto::customer::Requested::new(&mut rng, &cfg, cid, mb, cb, &ctx2);
            let bytes2 = bincode::serialize(&proof2).unwrap();
            let mut run2 = |ctx: &Context, rng: &mut StdRng| -> (bool, Option<String>) {
                let p: EstablishProof = bincode::deserialize(&bytes2).unwrap();
                let _ = take_challenge_log();
                let acc = m.initialize(rng, &cid, cb, mb, p, ctx).is_some();
                (acc, take_challenge_log().into_iter().last().map(|v| crate::util::hex(&v.1)))
            };
            let (a0, c0b) = run2(&ctx2, &mut rng);
            out.push(json!({"ev": "tuple", "proof": "establish", "component": "none", "variant": "original (31-byte context)", "in_equation": false, "accepted": a0, "challenge_changed": false}));
            let dig = Sha3_256::digest(&t2[..]);
            for (name, c) in [("SHA3-256 digest of the context bytes", Context::new(dig.as_ref())), ("context padded to 32 bytes", Context::new(b"a session context of 31 bytes !\0"))] {
                let (a, cc) = run2(&c, &mut rng);
                out.push(json!({"ev": "tuple", "proof": "establish", "component": "context", "variant": name, "in_equation": false, "accepted": a, "challenge_changed": cc != c0b}));
            }
        }
        // a BINARY context (bytes that are not valid UTF-8) and neighbours differing in one such byte
        {
            let t3: [u8; 20] = [0x80, 0xff, 0xc3, 0x28, b'a', 0xa0, 0xa1, 0xe2, 0x28, 0xa1, 0xf0, 0x28, 0x8c, 0xbc, 0x00, 0x7f, 0x80, 0xfe, 0xc0, 0xaf];
            let ctx3 = Context::new(&t3);
            let (_r3, proof3) = zkabacus_crypto::customer::Requested::new(&mut rng, &cfg, cid, mb, cb, &ctx3);
            let bytes3 = bincode::serialize(&proof3).unwrap();
            let mut run3 = |ctx: &Context, rng: &mut StdRng| -> (bool, Option<String>) {
                let p: EstablishProof = bincode::deserialize(&bytes3).unwrap();
                let _ = take_challenge_log();
                let acc = m.initialize(rng, &cid, cb, mb, p, ctx).is_some();
                (acc, take_challenge_log().into_iter().last().map(|v| crate::util::hex(&v.1)))
            };
            let (a0, c0c) = run3(&ctx3, &mut rng);
            out.push(json!({"ev": "tuple", "proof": "establish", "component": "none", "variant": "original (binary context)", "in_equation": false, "accepted": a0, "challenge_changed": false}));
            for (pos, nb) in [(0usize, 0x81u8), (1, 0xfe), (5, 0xa2), (16, 0x90), (18, 0xc1), (19, 0xae)] {
                let mut t = t3;
                t[pos] = nb;
                let (a, cc) = run3(&Context::new(&t), &mut rng);
                out.push(json!({"ev": "tuple", "proof": "establish", "component": "context", "variant": format!("binary context, byte {} {:#04x} -> {:#04x}", pos, t3[pos], nb), "in_equation": false, "accepted": a, "challenge_changed": cc != c0c}));
            }
        }

        // ---- pay
        let info = self.honest_ready(100, 50, &[]);
        let c = &self.world.chans[&info.ch];
        let ccfg = &self.world.ccfgs[c.mer];
        let ready = match Cust::from_bytes("ready", &c.cust.to_bytes()).unwrap() { Cust::Ready(r) => r, _ => unreachable!() };
        let amount = 9i64;
        let amt: PaymentAmount = bincode::deserialize(&amount.to_le_bytes()).unwrap();
        let pctx_in = *b"context of the payment session..";
        let pctx = Context::new(&pctx_in);
        let (_st, msg) = ready.start(&mut rng, amt, &pctx, ccfg).ok().unwrap();
        let pbytes = bincode::serialize(&msg.pay_proof).unwrap();
        let nonce_b = bincode::serialize(&msg.nonce).unwrap();
        let mut payv = |name: &str, variant: String, in_eq: bool, mm: &merchant::Config, nonce_b: &[u8], amount: i64, ctx: &Context, rng: &mut StdRng| {
            let p: PayProof = bincode::deserialize(&pbytes).unwrap();
            let n: Nonce = bincode::deserialize(nonce_b).unwrap();
            let a: PaymentAmount = bincode::deserialize(&amount.to_le_bytes()).unwrap();
            let _ = take_challenge_log();
            let acc = mm.allow_payment(rng, a, &n, p, ctx).is_some();
            let c = take_challenge_log().into_iter().last().map(|v| v.1);
            json!({"ev": "tuple", "proof": "pay", "component": name, "variant": variant, "in_equation": in_eq, "accepted": acc, "challenge": c.map(|c| crate::util::hex(&c))})
        };
        let base = payv("none", "original".into(), false, m, &nonce_b, amount, &pctx, &mut rng);
        let c0 = base["challenge"].clone();
        out.push(base);
        let mut push = |mut e: Value| { e["challenge_changed"] = json!(e["challenge"] != c0); out.push(e); };
        push(payv("key", "fresh key pair".into(), true, &other_key, &nonce_b, amount, &pctx, &mut rng));
        for (name, _, c) in &key_variants {
            push(payv("key", name.clone(), true, c, &nonce_b, amount, &pctx, &mut rng));
        }
        push(payv("range_parameters", "fresh".into(), true, &other_range, &nonce_b, amount, &pctx, &mut rng));
        push(payv("range_parameters", "same key, digit signatures 0 and 1 swapped".into(), false, &swapped_range, &nonce_b, amount, &pctx, &mut rng));
        push(payv("range_parameters", "same key, digit signature 5 re-randomised".into(), false, &rerand_range, &nonce_b, amount, &pctx, &mut rng));
        push(payv("revocation_parameters", "fresh".into(), true, &other_rev, &nonce_b, amount, &pctx, &mut rng));
        let n0 = indep::sc(&nonce_b).unwrap();
        push(payv("nonce", "+1".into(), true, m, &(n0 + Scalar::one()).to_bytes(), amount, &pctx, &mut rng));
        push(payv("nonce", "fresh".into(), true, m, &Scalar::random(&mut rng).to_bytes(), amount, &pctx, &mut rng));
        for (a, d) in [(amount + 1, "+1"), (amount - 1, "-1"), (-amount, "negated"), (0, "zero")] {
            push(payv("amount", d.into(), true, m, &nonce_b, a, &pctx, &mut rng));
        }
        let positions: Vec<usize> = if thorough { (0..pctx_in.len()).collect() } else { vec![0, 31] };
        for pos in positions {
            let mut c2 = pctx_in;
            c2[pos] ^= 1;
            push(payv("context", format!("byte {} differs", pos), false, m, &nonce_b, amount, &Context::new(&c2), &mut rng));
        }
        push(payv("context", "establish context".into(), false, m, &nonce_b, amount, &ctx, &mut rng));

        // ---- cross-session: the recorded establish proof in another channel / under another merchant
        {
            let p: EstablishProof = bincode::deserialize(&bytes).unwrap();
            let m2 = self.world.mers[1];
            let acc = m2.initialize(&mut rng, &cid, cb, mb, p, &ctx).is_some();
            out.push(json!({"ev": "tuple", "proof": "establish", "component": "merchant", "variant": "second merchant of the world", "in_equation": true, "accepted": acc, "challenge_changed": true}));
        }
        out
    }

    /// closing messages with one field replaced by a value from another state or channel
    pub fn closing_substitution(&mut self) -> Vec<Value> {
        let mut out = vec![];
        let mut rng = seeded(self.seed, 84);
        let m: &'static merchant::Config = self.world.mers[0];
        // two channels, the first with a payment history: closing messages from several stages
        let mut msgs: Vec<(String, ClosingMessage)> = vec![];
        let a = self.honest_ready(100, 50, &[3]);
        let b = self.honest_ready(100, 50, &[]);
        for (tag, ch) in [("A.ready", a.ch), ("B.ready", b.ch)] {
            let c = &self.world.chans[&ch];
            if let Cust::Ready(r) = Cust::from_bytes("ready", &c.cust.to_bytes()).unwrap() {
                msgs.push((tag.to_string(), r.close(&mut rng)));
            }
        }
        // started and locked stages of channel A
        self.world.start(a.ch, 4);
        if let Cust::Started(s) = Cust::from_bytes("started", &self.world.chans[&a.ch].cust.to_bytes()).unwrap() {
            msgs.push(("A.started".into(), s.close(&mut rng)));
        }
        self.world.mallow(a.ch);
        self.world.receive(a.ch, "honest", None);
        if let Cust::Locked(l) = Cust::from_bytes("locked", &self.world.chans[&a.ch].cust.to_bytes()).unwrap() {
            msgs.push(("A.locked".into(), l.close(&mut rng)));
        }
        let trees: Vec<Tree> = msgs.iter().map(|(_, cm)| Tree::of(cm)).collect();
        let fields = ["close_state.channel_id", "close_state.revocation_lock", "close_state.merchant_balance", "close_state.customer_balance"];
        for (i, (tag, _)) in msgs.iter().enumerate() {
            // the untouched message passes
            let cm: ClosingMessage = bincode::deserialize(&trees[i].bytes).unwrap();
            let (sig, cs) = cm.into_parts();
            out.push(json!({"ev": "closesub", "message": tag, "field": "none", "source": "none", "accepted": matches!(m.check_close_signature(sig, &cs), Verification::Verified), "same_value": true}));
            for (j, (tag2, _)) in msgs.iter().enumerate() {
                if i == j { continue; }
                for f in fields {
                    let src = trees[j].bytes_at(f).unwrap();
                    let same = trees[i].bytes_at(f).unwrap() == src;
                    let mut bts = trees[i].bytes.clone();
                    patch(&mut bts, &trees[i], f, src);
                    let acc = match bincode::deserialize::<ClosingMessage>(&bts) {
                        Ok(cm) => { let (sig, cs) = cm.into_parts(); matches!(m.check_close_signature(sig, &cs), Verification::Verified) }
                        Err(_) => false,
                    };
                    out.push(json!({"ev": "closesub", "message": tag, "field": f, "source": tag2, "accepted": acc, "same_value": same}));
                }
            }
            // near values
            for f in ["close_state.merchant_balance", "close_state.customer_balance"] {
                let v = trees[i].u64_at(f).unwrap();
                for nv in [v + 1, v.wrapping_sub(1)] {
                    if nv > i64::MAX as u64 { continue; }
                    let mut bts = trees[i].bytes.clone();
                    patch(&mut bts, &trees[i], f, &nv.to_le_bytes());
                    let acc = match bincode::deserialize::<ClosingMessage>(&bts) {
                        Ok(cm) => { let (sig, cs) = cm.into_parts(); matches!(m.check_close_signature(sig, &cs), Verification::Verified) }
                        Err(_) => false,
                    };
                    out.push(json!({"ev": "closesub", "message": tag, "field": f, "source": "near value", "accepted": acc, "same_value": false}));
                }
            }
            // every bit of the channel id and of the lock
            for f in ["close_state.channel_id", "close_state.revocation_lock"] {
                let orig = trees[i].bytes_at(f).unwrap().to_vec();
                for bit in [0usize, 7, 100, 250, 253, 254, 255] {
                    let mut nb = orig.clone();
                    nb[bit / 8] ^= 1 << (bit % 8);
                    let mut bts = trees[i].bytes.clone();
                    patch(&mut bts, &trees[i], f, &nb);
                    let (acc, dec) = match bincode::deserialize::<ClosingMessage>(&bts) {
                        Ok(cm) => { let (sig, cs) = cm.into_parts(); (matches!(m.check_close_signature(sig, &cs), Verification::Verified), true) }
                        Err(_) => (false, false),
                    };
                    out.push(json!({"ev": "closesub", "message": tag, "field": f, "source": format!("bit {} flipped", bit), "accepted": acc, "same_value": false, "decodes": dec}));
                }
            }
        }
        out
    }
}
