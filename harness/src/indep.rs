//! Independent relation evaluator: evaluates the relations of the SPECIFIED verifiers directly on
//! wire atoms with bls12_381 group operations and pairings, never with the library's own
//! `commit` / `verify` / `verify_knowledge_*`.  Parameters and proofs are read through the recording
//! serializer (named paths), so no wire layout is assumed.
use crate::rec::Tree;
use bls12_381::{pairing, G1Affine, G1Projective, G2Affine, G2Projective, Scalar};
use sha3::{Digest, Sha3_256};

pub fn g1(b: &[u8]) -> Option<G1Affine> {
    let mut a = [0u8; 48];
    if b.len() != 48 { return None; }
    a.copy_from_slice(b);
    G1Affine::from_compressed(&a).into()
}
pub fn g2(b: &[u8]) -> Option<G2Affine> {
    let mut a = [0u8; 96];
    if b.len() != 96 { return None; }
    a.copy_from_slice(b);
    G2Affine::from_compressed(&a).into()
}
pub fn sc(b: &[u8]) -> Option<Scalar> {
    let mut a = [0u8; 32];
    if b.len() != 32 { return None; }
    a.copy_from_slice(b);
    Scalar::from_bytes(&a).into()
}

/// challenge = SHA3-256(transcript) interpreted as 4 little-endian limbs and reduced (ChallengeBuilder::finish)
pub fn challenge_of_transcript(t: &[u8]) -> Scalar {
    let d = Sha3_256::digest(t);
    let l = |i: usize| {
        let mut a = [0u8; 8];
        a.copy_from_slice(&d[8 * i..8 * i + 8]);
        u64::from_le_bytes(a)
    };
    Scalar::from_raw([l(0), l(1), l(2), l(3)])
}

#[derive(Clone, Debug)]
pub struct Pk {
    pub g1: G1Affine,
    pub y1s: Vec<G1Affine>,
    pub g2: G2Affine,
    pub x2: G2Affine,
    pub y2s: Vec<G2Affine>,
}

impl Pk {
    /// read a PublicKey<N> from its wire tree (fields g1, y1s.i, g2, x2, y2s.i), optionally under a prefix
    pub fn from_tree(t: &Tree, prefix: &str) -> Option<Pk> {
        let p = |s: &str| if prefix.is_empty() { s.to_string() } else { format!("{}.{}", prefix, s) };
        let mut y1s = vec![];
        let mut y2s = vec![];
        let mut i = 0;
        while let Some(b) = t.bytes_at(&p(&format!("y1s.{}", i))) {
            y1s.push(g1(b)?);
            i += 1;
        }
        i = 0;
        while let Some(b) = t.bytes_at(&p(&format!("y2s.{}", i))) {
            y2s.push(g2(b)?);
            i += 1;
        }
        Some(Pk { g1: g1(t.bytes_at(&p("g1"))?)?, y1s, g2: g2(t.bytes_at(&p("g2"))?)?, x2: g2(t.bytes_at(&p("x2"))?)?, y2s })
    }
}

/// wire view of a CommitmentProof<G, N>
#[derive(Clone, Debug)]
pub struct Cp {
    pub c: Vec<u8>,
    pub t: Vec<u8>,
    pub zbf: Scalar,
    pub z: Vec<Scalar>,
}
impl Cp {
    pub fn from_tree(t: &Tree, prefix: &str) -> Option<Cp> {
        let p = |s: &str| format!("{}.{}", prefix, s);
        let mut z = vec![];
        let mut i = 0;
        while let Some(b) = t.bytes_at(&p(&format!("message_response_scalars.{}", i))) {
            z.push(sc(b)?);
            i += 1;
        }
        Some(Cp {
            c: t.bytes_at(&p("commitment"))?.to_vec(),
            t: t.bytes_at(&p("scalar_commitment"))?.to_vec(),
            zbf: sc(t.bytes_at(&p("blinding_factor_response_scalar"))?)?,
            z,
        })
    }
    /// Schnorr relation in G1:  h^zbf * prod g_i^z_i  ==  T + c*C
    pub fn schnorr_g1(&self, h: &G1Affine, gs: &[G1Affine], c: &Scalar) -> bool {
        let (cc, tt) = match (g1(&self.c), g1(&self.t)) { (Some(a), Some(b)) => (a, b), _ => return false };
        if gs.len() != self.z.len() { return false; }
        let mut lhs = G1Projective::from(h) * self.zbf;
        for (g, z) in gs.iter().zip(self.z.iter()) {
            lhs += G1Projective::from(g) * z;
        }
        lhs == G1Projective::from(tt) + G1Projective::from(cc) * c
    }
    pub fn schnorr_g2(&self, h: &G2Affine, gs: &[G2Affine], c: &Scalar) -> bool {
        let (cc, tt) = match (g2(&self.c), g2(&self.t)) { (Some(a), Some(b)) => (a, b), _ => return false };
        if gs.len() != self.z.len() { return false; }
        let mut lhs = G2Projective::from(h) * self.zbf;
        for (g, z) in gs.iter().zip(self.z.iter()) {
            lhs += G2Projective::from(g) * z;
        }
        lhs == G2Projective::from(tt) + G2Projective::from(cc) * c
    }
}

/// wire view of a SignatureProof<N>
#[derive(Clone, Debug)]
pub struct Sp {
    pub s1: Vec<u8>,
    pub s2: Vec<u8>,
    pub cp: Cp,
}
impl Sp {
    pub fn from_tree(t: &Tree, prefix: &str) -> Option<Sp> {
        Some(Sp {
            s1: t.bytes_at(&format!("{}.blinded_signature.sigma1", prefix))?.to_vec(),
            s2: t.bytes_at(&format!("{}.blinded_signature.sigma2", prefix))?.to_vec(),
            cp: Cp::from_tree(t, &format!("{}.commitment_proof", prefix))?,
        })
    }
    /// (sigma1 != identity, Schnorr in G2 under (g2, y2s), e(sigma1, X2 + C) == e(sigma2, g2))
    pub fn relations(&self, pk: &Pk, c: &Scalar) -> (bool, bool, bool) {
        let (s1, s2) = match (g1(&self.s1), g1(&self.s2)) { (Some(a), Some(b)) => (a, b), _ => return (false, false, false) };
        let wf = !bool::from(s1.is_identity());
        let schnorr = self.cp.schnorr_g2(&pk.g2, &pk.y2s, c);
        let pair = match g2(&self.cp.c) {
            Some(cc) => {
                let xc = G2Affine::from(G2Projective::from(pk.x2) + G2Projective::from(cc));
                pairing(&s1, &xc) == pairing(&s2, &pk.g2)
            }
            None => false,
        };
        (wf, schnorr, pair)
    }
}

/// PS verification relation evaluated independently: sigma1 != 1 and e(sigma1, X2 * prod Y2_i^m_i) = e(sigma2, g2)
pub fn ps_relation(pk: &Pk, msg: &[Scalar], s1: &G1Affine, s2: &G1Affine) -> (bool, bool) {
    let wf = !bool::from(s1.is_identity());
    if msg.len() != pk.y2s.len() { return (wf, false); }
    let mut acc = G2Projective::from(pk.x2);
    for (y, m) in pk.y2s.iter().zip(msg.iter()) {
        acc += G2Projective::from(y) * m;
    }
    (wf, pairing(s1, &G2Affine::from(acc)) == pairing(s2, &pk.g2))
}
