SPECIFICATION Spec
CONSTANTS
  MCMaxBal = 2
  AmtRange = 3
  MaxPays = 2
  MCChannels = {1}
  Channels <- MCChannels
  MerOf <- MCMerOf
  InitBals <- MCInitBals
  Amounts <- MCAmounts
  FaultKinds <- MCFaults
  RevKinds <- MCRevKinds
  NAdd <- MCAdd
  NSub <- MCSub
  NLeq <- MCLeq
  NZero = 0
  MaxBal = 2
  UMax = 5
INVARIANTS TypeOK CanClose LedgerShape Conservation HeldSigsValid TagSeparation IssuedMatchesLedger TokenOnlyAfterRevocation ClosedOnUnrevoked MerchantExposureBounded
PROPERTIES RefusedIsInert ReleaseOnlyOnAccept RefusedStartInert TokenIffOpens RestoreStutters ReplayRefused FaultRefused HonestAccepted
CHECK_DEADLOCK FALSE
