------------------------------- MODULE WireRoles -------------------------------
(* Role table of the wire decoders (see Wire.tla): which encoding classes must be refused at  *)
(* which leaf of a wire form - the type invariants of C15.                                     *)
EXTENDS Integers, Sequences, FiniteSets
GroupInvalid == {"off_curve", "off_subgroup", "uncompressed_flag", "x_not_reduced", "flag_combination"}
RawBytes == {"ChannelId", "CustomerRandomness", "MerchantRandomness"}
Forbidden(s, f, inPair, class) ==
  \/ class \in GroupInvalid
  \/ class = "tag_out_of_range"
  \/ class = "len_other"                           \* element count of a fixed-length array other than N
  \/ class = "noncanonical" /\ s \notin RawBytes
  \/ class = "identity" /\ (s \in {"PublicKey", "PedersenParameters"} \/ (s = "Signature" /\ f = "sigma1") \/ (s = "SecretKey" /\ f = "x1"))
  \/ class = "zero" /\ s = "SecretKey" /\ f # "x1"
  \/ class = "close_tag" /\ s = "Nonce"
  \/ class \in {"two_pow_63", "u64_max"} /\ s = "Balance"
  \/ inPair /\ class \in {"zero", "close_tag", "q_minus_1", "other_valid", "noncanonical"}   \* lock = H(secret, index) breaks

(* Key material has cross-field relations that every honest constructor establishes (public elements are the secret    *)
(* scalars times the generators, the two halves of a public key share their logarithms): an encoding with ONE atom of a *)
(* key replaced by another valid atom is not the encoding of any honestly produced key, and the properties do not say   *)
(* whether a decoder accepts it - both outcomes are allowed there (never a panic).                                      *)
Optional(s, f, inPair, class) == s \in {"SecretKey", "PublicKey"} /\ class \in {"other_valid", "q_minus_1", "close_tag"}

=============================================================================
