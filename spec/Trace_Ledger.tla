------------------------------ MODULE Trace_Ledger ------------------------------
(***************************************************************************)
(* Validates balance / amount arithmetic of the real code (harness         *)
(* `ledger`, built with overflow checks) against Ledger.tla evaluated on   *)
(* true 64-bit values in base-10^9 limbs (Big.tla; MC_Ledger checks that   *)
(* the limb arithmetic refines integer arithmetic).                        *)
(***************************************************************************)
EXTENDS Integers, Sequences, Json, IOUtils, TLC
TB == INSTANCE Big WITH B <- 1000000000
TMaxBal == <<9, 223372036, 854775807>>        \* 2^63 - 1
TUMax   == <<18, 446744073, 709551615>>       \* 2^64 - 1
L == INSTANCE Ledger WITH NAdd <- TB!BigAdd, NSub <- TB!BigSub, NLeq <- TB!BigLeq, NZero <- TB!BigZero,
                          MaxBal <- TMaxBal, UMax <- TUMax
Rec == ndJsonDeserialize(IOEnv.TRACE)
VARIABLE l
r == Rec[l]
IsEv(e) == l <= Len(Rec) /\ Rec[l].ev = e /\ l' = l + 1
Same(res, out, v) == (res.ok /\ out = "ok" /\ v = res.v) \/ (~res.ok /\ out = res.err)
IsZero(x) == x = <<0, 0, 0>>
AmtEq(a, b) == a.mag = b.mag /\ (a.neg = b.neg \/ IsZero(a.mag))

TTryNew == IsEv("trynew") /\ Same(L!TryNew(r.u), r.out, r.v)
TPayCtor == /\ IsEv("payctor")
            /\ LET res == IF r.which = "merchant" THEN L!PayMerchant(r.u) ELSE L!PayCustomer(r.u) IN
                 (res.ok /\ r.out = "ok" /\ AmtEq(r.a, res.v)) \/ (~res.ok /\ r.out = res.err)
TTryAdd == IsEv("tryadd") /\ Same(L!TryAdd(r.m, r.c), r.out, r.v)
(* the decoder of a balance is a constructor: it agrees with try_new (an out-of-range operand never exists) *)
TBalDecode == IsEv("baldecode") /\ Same(L!TryNew(r.u), r.out, r.v)
TAmtDecode == IsEv("amtdecode") /\ r.out = "ok" /\ r.same          \* every i64 decodes to itself, no panic
TApply == /\ IsEv("apply")
          /\ LET res == L!ApplyBoth(r.cb, r.mb, r.amt) IN
               IF res.ok THEN r.out = "ok" /\ r.ncb = res.cb /\ r.nmb = res.mb
                              /\ TB!BigAdd(r.ncb, r.nmb) = TB!BigAdd(r.cb, r.mb)             \* conservation
               ELSE r.out \in res.errs /\ r.unchanged
TEncAmt == IsEv("encamt") /\ r.out = (IF r.same THEN "accepted" ELSE "refused")
TNext == TTryNew \/ TPayCtor \/ TTryAdd \/ TBalDecode \/ TAmtDecode \/ TApply \/ TEncAmt
TSpec == l = 1 /\ [][TNext]_l
Accepted ==
  LET n == TLCGet("stats").diameter - 1 IN
  IF n = Len(Rec) THEN TRUE
  ELSE /\ PrintT(<<"TRACE_MISMATCH", "matched", n, "of", Len(Rec), "next_event", ToJson(Rec[n + 1])>>)
       /\ FALSE
=============================================================================
