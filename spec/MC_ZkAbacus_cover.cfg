SPECIFICATION Spec
CONSTANTS
  MCMaxBal = 7
  AmtRange = 7
  MaxPays = 2
  MCChannels = {1}
  Channels <- MCChannels
  MerOf <- MCMerOf
  InitBals <- MCInitBalsCover
  Amounts <- MCAmounts
  FaultKinds <- MCFaults
  AdvChannels <- MCNone
  ProofSound = TRUE
  RevKinds <- MCRevKinds
  NAdd <- MCAdd
  NSub <- MCSub
  NLeq <- MCLeq
  NZero = 0
  MaxBal = 7
  UMax = 15
INVARIANTS TypeOK CanClose LedgerShape Conservation HeldSigsValid TagSeparation IssuedMatchesLedger TokenOnlyAfterRevocation ClosedOnUnrevoked MerchantExposureBounded NoDoubleSpend DisputeWindow DisputePunishOld DisputeOutcomeConserves MerchantPayoffBound DisputeCustomerSafe
PROPERTIES RefusedIsInert OutcomeOnlyByCustomer ReleaseOnlyOnAccept RefusedStartInert TokenIffOpens RestoreStutters ReplayRefused FaultRefused HonestAccepted
VIEW View
CHECK_DEADLOCK FALSE
