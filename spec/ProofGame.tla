------------------------------ MODULE ProofGame ------------------------------
(***************************************************************************)
(* Soundness of the composite zkAbacus proofs (EstablishProof, PayProof)   *)
(* as a game TLC can finish.                                               *)
(*                                                                         *)
(* A composite proof is a set of Schnorr proofs plus linear constraints on *)
(* their response scalars (zkabacus-crypto/src/proofs.rs, verify()).  In   *)
(* the algebraic group model every commitment C and scalar commitment T    *)
(* the prover sends has a representation over the public generators; the   *)
(* Schnorr check  Commit(z) = T + c*C  then splits per generator into      *)
(*        z[x] = t[x] + c * m[x]                                           *)
(* where m[x], t[x] are the coefficients of C and T on the generator of    *)
(* message slot x.  The verifier's conjunction therefore decomposes into   *)
(* independent CLUSTERS of (proof, slot) members; this module is one       *)
(* cluster.  Everything is computed in Z_P for a small prime P.            *)
(*                                                                         *)
(* The hash is a random oracle: the challenge c is drawn after every       *)
(* HASHED value is fixed and is independent of everything else; a value    *)
(* that is NOT hashed may be chosen by the prover after it has seen c.     *)
(* Which values are hashed is OBSERVED from the implementation (challenge  *)
(* recorder hook) and supplied as constants: HashedRev, HashedC, HashedT.  *)
(*                                                                         *)
(* Constraint kinds (records in Cons):                                     *)
(*   [k |-> "open", a, pub, rev]      z[a] = c*pub + s[rev]   partial opening to a public value *)
(*   [k |-> "eq", a, b]               z[a] = z[b]                                              *)
(*   [k |-> "pubadd", a, b, pub, neg] z[a] = z[b] -/+ c*pub   addition of a public value       *)
(*   [k |-> "range", a, ds]           z[a] = SUM_j U^(j-1) * z[ds[j]]   range link             *)
(* Members in Digits are digit proofs: PS unforgeability (axiom A2) says   *)
(* their hidden message is a signed digit, m \in 0..U-1.                   *)
(***************************************************************************)
EXTENDS GameCore, TLC

CONSTANTS P,          \* small prime, stands for the scalar field order q
          Members,    \* the (proof, slot) pairs of the cluster
          Pubs,       \* names of public values the verifier plugs in
          Revs,       \* names of revealed scalars ("commitment scalars for public values")
          Cons,       \* the verifier's constraints on this cluster
          Digits,     \* members that are digit proofs of a range constraint
          U,          \* radix of the range constraint (real code: 128)
          HashedRev,  \* subset of Revs whose bytes enter the challenge        (observed)
          HashedC,    \* members whose commitment C enters the challenge        (observed)
          HashedT     \* members whose scalar commitment T enters the challenge (observed)

Zp == 0..(P - 1)

VARIABLES phase,   \* "commit" -> "m_fixed" -> "committed"
          m,       \* [Members -> Zp]  coefficient of C on the slot generator   (hidden message)
          t,       \* [Members -> Zp]  coefficient of T on the slot generator   (commitment scalar)
          s,       \* [Revs -> Zp]     revealed scalars
          pub      \* [Pubs -> Zp]     public values of the statement
vars == <<phase, m, t, s, pub>>

WSum(f, ds, j) == GWSum(P, U, f, ds, j)      \* Horner form of SUM U^(j-1) f[dj]

(* the first message: everything the prover must fix before the challenge.   *)
(* Values that are not hashed are still part of the state (an honest prover   *)
(* fixes them now) but the adversary may overwrite them after the challenge.  *)
Init == /\ phase = "commit"
        /\ m = [x \in Members |-> 0] /\ t = [x \in Members |-> 0]
        /\ s = [r \in Revs |-> 0] /\ pub = [q \in Pubs |-> 0]

(* the first message is fixed in two steps (hidden messages and statement, then commitment *)
(* scalars and revealed scalars) only so that TLC's workers share the enumeration          *)
CommitM == /\ phase = "commit"
           /\ phase' = "m_fixed"
           /\ m' \in [Members -> Zp]
           /\ \A d \in Digits : m'[d] \in 0..(U - 1)      \* A2: digit proofs hide signed digits
           /\ pub' \in [Pubs -> Zp]
           /\ UNCHANGED <<t, s>>
CommitT == /\ phase = "m_fixed"
           /\ phase' = "committed"
           /\ t' \in [Members -> Zp]
           /\ s' \in [Revs -> Zp]
           /\ UNCHANGED <<m, pub>>
Next == CommitM \/ CommitT
Spec == Init /\ [][Next]_vars

-----------------------------------------------------------------------------
(* what the prover may still choose after seeing c *)
LateRevs == Revs \ HashedRev
LateT    == Members \ HashedT
LateC    == Members \ HashedC

Acc(c) == GAcc(P, U, Members, Digits, Cons, pub, m, t, s, LateRevs, LateT, LateC, c)

Answerable == {c \in Zp : Acc(c)}

(* the statement the merchant believes after accepting (what the signatures it issues will cover) *)
RangeVal(ds) == WSum(m, ds, 1)
StatementOf(k) == GStatementOf(P, U, pub, m, k)
Statement == \A k \in Cons : StatementOf(k)

(* 2-special soundness: a first message that can be completed for two different challenges *)
(* proves the statement.  (With |Z_q| ~ 2^255 a cheating prover succeeds w.p. ~ 2^-255.)   *)
Sound == (phase = "committed" /\ Cardinality(Answerable) >= 2) => Statement

(* the equations are affine in c: either every challenge is answerable or at most one is *)
Dichotomy == phase = "committed" => (Cardinality(Answerable) <= 1 \/ Answerable = Zp)

(* completeness: an honest first message (true statement, revealed scalars = the commitment *)
(* scalars of the opened members, linked members share commitment scalars) answers every c   *)
HonestFirstMessage ==
  /\ Statement
  /\ \A k \in Cons :
       CASE k.k = "open"   -> s[k.rev] = t[k.a]
         [] k.k = "eq"     -> t[k.a] = t[k.b]
         [] k.k = "pubadd" -> t[k.a] = t[k.b]
         [] k.k = "range"  -> t[k.a] = WSum(t, k.ds, 1)
Complete == (phase = "committed" /\ HonestFirstMessage) => \A c \in Zp :
               \A k \in Cons : GHolds(P, U, Members, pub, k, c, m, t, s)
=============================================================================
