INIT Init
NEXT Next
CONSTANTS W = 3
          P = 17
INVARIANTS TryNewExact PayCtorsExact ApplyExact Conservation TryAddExact EncHom LimbRefines
CHECK_DEADLOCK FALSE
