SPECIFICATION Spec
CONSTANTS Channels = {1, 2}
          MaxPays = 2
          RERANDOMIZE = FALSE
PROPERTY NoReuse
CHECK_DEADLOCK FALSE
