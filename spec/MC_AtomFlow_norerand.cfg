SPECIFICATION Spec
CONSTANTS Channels = {1, 2}
          MaxPays = 2
          RERANDOMIZE = FALSE
          LEAK = FALSE
PROPERTY NoReuse
INVARIANT NoSecretLeak
CHECK_DEADLOCK FALSE
