--------------------------------- MODULE Big ---------------------------------
(***************************************************************************)
(* Unsigned multi-limb numbers <<a2, a1, a0>> in base B (value a2*B^2 +    *)
(* a1*B + a0, 0 <= a1,a0 < B).  With B = 10^9 every u64 / i64 magnitude of *)
(* the implementation fits (a2 <= 18) and all intermediate sums stay below *)
(* 2^31, so TLC's 32-bit integers evaluate the ledger on real 64-bit data. *)
(* MC_Ledger checks with B = 4 that these operators agree with integer     *)
(* arithmetic on every pair of inputs.                                     *)
(***************************************************************************)
EXTENDS Integers, Sequences
CONSTANT B

BigZero == <<0, 0, 0>>

BigAdd(x, y) ==
  LET s0 == x[3] + y[3]          c0 == s0 \div B
      s1 == x[2] + y[2] + c0     c1 == s1 \div B
      s2 == x[1] + y[1] + c1
  IN <<s2, s1 % B, s0 % B>>

BigLeq(x, y) ==
  \/ x[1] < y[1]
  \/ x[1] = y[1] /\ x[2] < y[2]
  \/ x[1] = y[1] /\ x[2] = y[2] /\ x[3] <= y[3]

(* x - y, meaningful only when y <= x *)
BigSub(x, y) ==
  LET d0 == x[3] - y[3]          b0 == IF d0 < 0 THEN 1 ELSE 0
      d1 == x[2] - y[2] - b0     b1 == IF d1 < 0 THEN 1 ELSE 0
      d2 == x[1] - y[1] - b1
  IN <<d2, IF d1 < 0 THEN d1 + B ELSE d1, IF d0 < 0 THEN d0 + B ELSE d0>>

BigOfInt(n) == <<n \div (B * B), (n \div B) % B, n % B>>
BigToInt(x) == x[1] * B * B + x[2] * B + x[3]
BigWF(x)    == x[1] >= 0 /\ x[2] \in 0..(B-1) /\ x[3] \in 0..(B-1)
=============================================================================
