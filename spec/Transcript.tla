------------------------------ MODULE Transcript ------------------------------
(***************************************************************************)
(* Fiat-Shamir transcripts (zkchannels-crypto/src/proofs/challenge.rs and  *)
(* the ChallengeInput impls).  A challenge is H(seq) for the sequence of   *)
(* atoms fed to the builder; H is a random oracle, i.e. injective on       *)
(* sequences for all practical purposes: two transcripts give the same     *)
(* challenge iff they are equal.  An object's transcript contains exactly  *)
(* the atoms in Hashed (OBSERVED per type from the implementation).        *)
(* Binding: changing any first-message atom (anything that is not a        *)
(* response scalar) changes the transcript, hence the challenge.           *)
(***************************************************************************)
EXTENDS Integers, Sequences, FiniteSets, TLC
CONSTANTS Atoms,        \* sequence of atom names of the wire form of one type
          Responses,    \* the atoms that are response scalars
          Hashed        \* the atoms that enter the transcript (observed)
VARIABLES val, chg      \* val: [atom -> 0..1] current values; chg: the atom changed last
vars == <<val, chg>>
AtomSet == {Atoms[i] : i \in 1..Len(Atoms)}
Seq0(v) == [i \in 1..Len(Atoms) |-> IF Atoms[i] \in Hashed THEN <<Atoms[i], v[Atoms[i]]>> ELSE <<"-", 0>>]
Init == val = [a \in AtomSet |-> 0] /\ chg = "none"
Flip(a) == val' = [val EXCEPT ![a] = 1 - @] /\ chg' = a
Next == chg = "none" /\ \E a \in AtomSet : Flip(a)      \* single substitutions
Spec == Init /\ [][Next]_vars
(* every single change of a first-message atom changes the transcript *)
Binding == [][chg' \in (AtomSet \ Responses) => Seq0(val') # Seq0(val)]_vars
FirstMessageHashed == (AtomSet \ Responses) \subseteq Hashed
=============================================================================
