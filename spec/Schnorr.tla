------------------------------- MODULE Schnorr -------------------------------
(***************************************************************************)
(* The three proofs of knowledge of zkchannels-crypto (proofs/commitment,  *)
(* signature, signaturerequest) in the exponent instance over Z_P, N = 1:  *)
(*   CommitmentProof:  C = h*bf + g*m, T = h*tb + g*t,                     *)
(*                     zb = c*bf + tb, z = c*m + t,                        *)
(*       verify  <=>  h*zb + g*z = T + c*C                                 *)
(*   SignatureRequestProof = CommitmentProof under (g1, Y1); a verified    *)
(*       proof yields the blind-signable value C (and nothing else)        *)
(*   SignatureProof: blinded signature (s1, s2) + CommitmentProof under    *)
(*       (g2, Y2):  verify <=> s1 # 0 /\ CP /\ s1*(x + C) = s2             *)
(* TLC enumerates every parameter, message, randomness and challenge and   *)
(* checks completeness, exactness, that every single-field perturbation    *)
(* rejects (for c # 0 where the field is scaled by c), that a simulated    *)
(* transcript verifies under its own challenge only, and that a proof      *)
(* around the all-identity signature never verifies.                       *)
(***************************************************************************)
EXTENDS Integers, FiniteSets, TLC
CONSTANT P
Zp == 0..(P - 1)
NZ == 1..(P - 1)
Add(a, b) == (a + b) % P
Sub(a, b) == (a - b + P) % P
Mul(a, b) == (a * b) % P

VARIABLES h, g,          \* Pedersen parameters (non-zero)
          m, bf, t, tb,  \* message, blinding factor, commitment scalars
          c,             \* challenge
          x, r           \* signing key x (y = g) and the randomiser of the blinded signature
vars == <<h, g, m, bf, t, tb, c, x, r>>
Init == /\ h \in NZ /\ g \in NZ /\ m \in Zp /\ bf \in Zp /\ t \in Zp /\ tb \in Zp /\ c \in Zp
        /\ x \in NZ /\ r \in Zp
Next == UNCHANGED vars
Spec == Init /\ [][Next]_vars

Com(mm, bb) == Add(Mul(h, bb), Mul(g, mm))
C  == Com(m, bf)
T  == Com(t, tb)
Z  == Add(Mul(c, m), t)
ZB == Add(Mul(c, bf), tb)
VerifyCP(cc, tt, z, zb, ch) == Com(z, zb) = Add(tt, Mul(ch, cc))

Complete == VerifyCP(C, T, Z, ZB, c)
(* exactness: the verdict is the Schnorr relation - for ANY values of the proof fields *)
Exact == \A cc \in Zp, tt \in Zp : VerifyCP(cc, tt, Z, ZB, c) <=> (Com(Z, ZB) = Add(tt, Mul(c, cc)))
PerturbationRejects ==
  /\ \A d \in NZ : ~VerifyCP(C, Add(T, d), Z, ZB, c)
  /\ \A d \in NZ : ~VerifyCP(C, T, Add(Z, d), ZB, c)
  /\ \A d \in NZ : ~VerifyCP(C, T, Z, Add(ZB, d), c)
  /\ \A d \in NZ : c # 0 => ~VerifyCP(Add(C, d), T, Z, ZB, c)
  /\ \A d \in NZ : C # 0 => ~VerifyCP(C, T, Z, ZB, Add(c, d))          \* another challenge
(* a transcript simulated for challenge c (T := Com(z, zb) - c*C for arbitrary z, zb, C) verifies under c ... *)
Simulated == \A cc \in Zp, z \in Zp, zb \in Zp :
                LET tt == Sub(Com(z, zb), Mul(c, cc)) IN
                  /\ VerifyCP(cc, tt, z, zb, c)
                  /\ \A d \in NZ : cc # 0 => ~VerifyCP(cc, tt, z, zb, Add(c, d))   \* ... and under no other
(* signature proof: blinded signature of a signature on m under key (x, y = g) with blinding bf *)
S1 == r
S2 == Mul(r, Add(x, C))          \* = r*(x + g*m) + r*h*bf : blind_and_randomize
VerifySP(s1, s2, cc, tt, z, zb, ch) == s1 # 0 /\ VerifyCP(cc, tt, z, zb, ch) /\ Mul(s1, Add(x, cc)) = s2
SPComplete == r # 0 => VerifySP(S1, S2, C, T, Z, ZB, c)
SPIdentityNeverVerifies == ~VerifySP(0, 0, C, T, Z, ZB, c)
SPPerturbationRejects ==
  /\ \A d \in NZ : ~VerifySP(S1, Add(S2, d), C, T, Z, ZB, c)
  /\ \A d \in NZ : (r # 0 /\ Add(x, C) # 0) => ~VerifySP(Add(S1, d), S2, C, T, Z, ZB, c)
=============================================================================
