SPECIFICATION Spec
CONSTANTS P = 3
          N = 2
INVARIANTS AcceptsOriginal Exact SinglePerturbationRejects Homomorphic
CHECK_DEADLOCK FALSE
