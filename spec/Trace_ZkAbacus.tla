--------------------------- MODULE Trace_ZkAbacus ---------------------------
(***************************************************************************)
(* Trace validation: a trace recorded from the real zkabacus-crypto code   *)
(* (harness `zkverif proto`, one ndjson event per public API call) is      *)
(* accepted iff it is a behaviour of ZkAbacus.tla whose projected state    *)
(* (stage, balances, closing-message probe, disclosed locks, outcomes)     *)
(* equals the logged one at every step.  The invariants of ZkAbacus.tla    *)
(* are evaluated on every state of the trace (cfg).  Balances are true     *)
(* 64-bit values in base-10^9 limbs (Big.tla).                             *)
(***************************************************************************)
EXTENDS ZkAbacus, Json, IOUtils

TB == INSTANCE Big WITH B <- 1000000000
TAdd(a, b) == TB!BigAdd(a, b)
TSub(a, b) == TB!BigSub(a, b)
TLeq(a, b) == TB!BigLeq(a, b)
TZero   == <<0, 0, 0>>
TMaxBal == <<9, 223372036, 854775807>>        \* 2^63 - 1
TUMax   == <<18, 446744073, 709551615>>       \* 2^64 - 1
TMerOf(ch) == IF ch = 2 THEN "M2" ELSE "M1"
TChannels == 1..4
TEmpty == {}
CONSTANT Aspects      \* which optional assertions are active: "twin" (C20)
TwinOK(e) == ("twin" \in Aspects) => e.twin = TRUE

Rec == ndJsonDeserialize(IOEnv.TRACE)

VARIABLES l,          \* position in the trace
          lockIds,    \* [Channels -> Seq(id)]  interned revocation lock of state k of channel ch
          nonceIds,   \* [Channels -> Seq(id)]  interned nonce of state k
          revIds      \* interned locks disclosed in lock messages so far

tvars == <<vars, l, lockIds, nonceIds, revIds>>

r == Rec[l]
IsEv(e) == l <= Len(Rec) /\ Rec[l].ev = e /\ l' = l + 1

AllIds(f) == UNION {{f[ch][i] : i \in 1..Len(f[ch])} : ch \in TChannels}

TInit == Init /\ l = 1
         /\ lockIds = [ch \in TChannels |-> <<>>]
         /\ nonceIds = [ch \in TChannels |-> <<>>]
         /\ revIds = {}

(* the concrete projection logged after a customer step must equal the abstract state *)
Live(st) == st \in {"requested", "inactive", "ready", "started", "locked"}
(* (primed copies are written out explicitly: TLC may cache the unprimed value of an operator  *)
(*  application, so `Closable(ch)'` is not reliable)                                            *)
ClosableP(ch) == cust'[ch].stage \in {"inactive", "ready", "started", "locked"}
CloseBalP(ch) == led'[ch][cust'[ch].k + 1]
ProbeOK(ch, p) ==
  /\ p.reenc_same
  /\ p.closable = ClosableP(ch)
  /\ p.closable =>
        /\ p.ok /\ p.cid_ok
        /\ p.cb = CloseBalP(ch)[1] /\ p.mb = CloseBalP(ch)[2]
        /\ p.lock = lockIds'[ch][cust'[ch].k + 1]
        /\ p.lock \notin revIds'
Post(ch, e) ==
  /\ e.stage = cust'[ch].stage
  /\ e.cid_ok
  /\ Live(cust'[ch].stage) =>
        /\ e.cb = led'[ch][cust'[ch].k + 1][1]
        /\ e.mb = led'[ch][cust'[ch].k + 1][2]
        /\ ProbeOK(ch, e.probe)

TRequest ==
  /\ IsEv("request") /\ r.out = "ok"
  /\ Request(r.ch, <<r.cb0, r.mb0>>)
  /\ r.lock \notin AllIds(lockIds) /\ r.nonce \notin AllIds(nonceIds)       \* fresh
  /\ lockIds' = [lockIds EXCEPT ![r.ch] = <<r.lock>>]
  /\ nonceIds' = [nonceIds EXCEPT ![r.ch] = <<r.nonce>>]
  /\ UNCHANGED revIds
  /\ Post(r.ch, r)

ReplayTerm(o) == Issue(TMerOf(o.ch), o.typ, o.ch, o.k, Bf(o.ch, o.k, o.typ))

TReceive ==
  /\ IsEv("receive")
  /\ CASE r.how = "honest" -> Deliver(r.ch)
       [] r.how = "replay" -> Replay(r.ch, ReplayTerm(r.of))
       [] OTHER            -> Fault(r.ch, r.how)
  /\ (IF r.out = "undecodable" THEN "refused" ELSE r.out) = last'.out   \* a reply the decoder refuses never reaches the customer
  /\ r.same = (last'.out = "refused")
  /\ TwinOK(r)
  /\ IF cust[r.ch].stage = "started" /\ last'.out = "ok"
     THEN /\ r.revealed = lockIds[r.ch][cust[r.ch].k + 1]     \* the pair released is the OLD state's
          /\ revIds' = revIds \cup {r.revealed}
     ELSE UNCHANGED revIds
  /\ UNCHANGED <<lockIds, nonceIds>>
  /\ Post(r.ch, r)

TStart ==
  /\ IsEv("start")
  /\ Start(r.ch, r.amt)
  /\ (r.out = "ok") = (last'.out = "ok")
  /\ TwinOK(r)
  /\ IF r.out = "ok"
     THEN /\ ~r.same
          /\ r.lock \notin AllIds(lockIds) /\ r.nonce \notin AllIds(nonceIds)   \* fresh lock and nonce
          /\ r.shown_nonce = nonceIds[r.ch][cust[r.ch].k + 1]                   \* reveals the OLD nonce
          /\ lockIds' = [lockIds EXCEPT ![r.ch] = Append(@, r.lock)]
          /\ nonceIds' = [nonceIds EXCEPT ![r.ch] = Append(@, r.nonce)]
     ELSE /\ r.same /\ r.msg_len = 0
          /\ r.out \in L!ApplyBoth(Bal(r.ch, cust[r.ch].k)[1], Bal(r.ch, cust[r.ch].k)[2], r.amt).errs
          /\ UNCHANGED <<lockIds, nonceIds>>
  /\ UNCHANGED revIds
  /\ Post(r.ch, r)

TClose ==
  /\ IsEv("close") /\ r.out = "ok"
  /\ Close(r.ch)
  /\ TwinOK(r)
  /\ r.stage = "closed"
  /\ r.cm.ok /\ r.cm.cid_ok
  /\ r.cm.cb = closed'[r.ch].cb /\ r.cm.mb = closed'[r.ch].mb
  /\ r.cm.lock = lockIds[r.ch][closed'[r.ch].k + 1]
  /\ r.cm.lock \notin revIds
  /\ UNCHANGED <<lockIds, nonceIds, revIds>>

TRestore ==
  /\ IsEv("restore") /\ r.out = "ok"
  /\ Restore(r.ch)
  /\ r.same
  /\ UNCHANGED <<lockIds, nonceIds, revIds>>
  /\ Post(r.ch, r)

TMerchant ==
  /\ \/ IsEv("minit") /\ MInit(r.ch)
     \/ IsEv("mactivate") /\ MActivate(r.ch)
     \/ IsEv("mallow") /\ MAllow(r.ch)
     \/ /\ IsEv("mcomplete")
        /\ IF r.how = "honest" THEN MComplete(r.ch) ELSE WrongRev(r.ch, r.how)
        /\ r.pend_same
  /\ r.out = last'.out
  /\ UNCHANGED <<lockIds, nonceIds, revIds>>

TReset ==
  /\ IsEv("reset")
  /\ cust' = [ch \in TChannels |-> [stage |-> "none", k |-> 0, csig |-> NoSig, tok |-> NoSig]]
  /\ led' = [ch \in TChannels |-> <<>>]
  /\ c2m' = [ch \in TChannels |-> NoMsg]
  /\ m2c' = [ch \in TChannels |-> NoSig]
  /\ vbs' = [ch \in TChannels |-> NoVbs]
  /\ pend' = [ch \in TChannels |-> NoPend]
  /\ issued' = {} /\ revealed' = {} /\ nonces' = {} /\ wire' = {}
  /\ closed' = [ch \in TChannels |-> NoClose]
  /\ spent' = [ch \in TChannels |-> <<>>]
  /\ last' = Step("init", 0, "", "ok")
  /\ lockIds' = [ch \in TChannels |-> <<>>]
  /\ nonceIds' = [ch \in TChannels |-> <<>>]
  /\ revIds' = {}

TNext == TRequest \/ TReceive \/ TStart \/ TClose \/ TRestore \/ TMerchant \/ TReset
TSpec == TInit /\ [][TNext]_tvars

(* every disclosed lock id is the id of an abstractly revealed lock and vice versa *)
RevealedAgree ==
  revIds = {lockIds[x[1]][x[2] + 1] : x \in revealed}

Accepted ==
  LET n == TLCGet("stats").diameter - 1 IN
  IF n = Len(Rec) THEN TRUE
  ELSE /\ PrintT(<<"TRACE_MISMATCH", "matched", n, "of", Len(Rec), "next_event", ToJson(Rec[n + 1])>>)
       /\ FALSE
=============================================================================
