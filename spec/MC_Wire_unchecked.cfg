SPECIFICATION Spec
CONSTANTS N = 3
          Big = 1000000
          Cap = 4
          CheckedPush = FALSE
          CappedPrealloc = FALSE
INVARIANTS NoPanic AllocBounded OkOnlyIfExact
PROPERTIES Terminates
CHECK_DEADLOCK FALSE
