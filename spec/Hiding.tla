-------------------------------- MODULE Hiding --------------------------------
(***************************************************************************)
(* Why the Schnorr responses of a composite proof tell the merchant        *)
(* nothing about the hidden values, and what that demands of the prover.   *)
(*                                                                         *)
(* A response is  z_i = c * m_i + t_i  (slot i, hidden value m_i,          *)
(* commitment scalar t_i).  The vector t is uniform on the COMMITMENT-      *)
(* SCALAR SPACE V: by design slots that hide the same value (or values at  *)
(* a public distance) share their commitment scalar, the digit scalars of  *)
(* a range constraint sum with weights U^j to the scalar of the value,     *)
(* and nothing else is related.  The view {c*m + t : t in V} is the same   *)
(* for every assignment of the hidden values iff every direction in which  *)
(* the hidden values can vary lies in V (linear algebra over Z_P).         *)
(*                                                                         *)
(* The model is the pay proof with L = 2 digits per balance (the real      *)
(* proof has L = 9).  TLC checks                                           *)
(*   Hiding    - every direction of every independently hidden value is    *)
(*               in V for every challenge                                  *)
(*   FreeDim   - V has exactly one dimension per free scalar (T injective) *)
(* and, as spec mutants,                                                   *)
(*   SHARE_LOCK   - the new state's lock hidden with the old lock's scalar *)
(*   DIGIT_SHARES - digit scalars as fixed shares of one scalar            *)
(* for which Hiding must FAIL: the merchant can then derive the next lock  *)
(* / a hidden balance from one proof although no value of any message      *)
(* equals a secret (the exact-value condition of AtomFlow.tla is blind to  *)
(* this).  Conformance (Trace_Hiding.tla): the harness recovers            *)
(* t_i = z_i - c*m_i from honest proofs of the real prover and reports     *)
(* whether the designed links hold and the rank of the t-vectors, which    *)
(* must be the number of free scalars: 6 for establish, 6 + 2*9 for pay.   *)
(***************************************************************************)
EXTENDS Integers, FiniteSets, TLC
CONSTANTS P, U, SHARE_LOCK, DIGIT_SHARES
Zp == 0..(P - 1)
Mod(x) == ((x % P) + P) % P

Slots == {"pt0", "pt1", "pt2", "pt3", "pt4", "rl", "st0", "st1", "st2", "st3", "st4",
          "cl0", "cl1", "cl2", "cl3", "cl4", "cd1", "cd2", "md1", "md2"}
(* free commitment scalars of the designed prover (pay proof, 2 digits per balance) *)
Free == ({"cid", "pt1", "olock", "st1", "cl1", "nlock", "cd1", "cd2", "md1", "md2"}
               \ (IF SHARE_LOCK THEN {"nlock"} ELSE {})) \ (IF DIGIT_SHARES THEN {"cd2", "md2"} ELSE {})
(* the commitment scalar of every slot as a linear form of the free scalars *)
T(f) ==
  LET cd1 == f["cd1"]   cd2 == IF DIGIT_SHARES THEN Mod(2 * f["cd1"]) ELSE f["cd2"]      \* a fixed share of the same scalar
      md1 == f["md1"]   md2 == IF DIGIT_SHARES THEN Mod(2 * f["md1"]) ELSE f["md2"]
      cb  == Mod(cd1 + U * cd2)   mb == Mod(md1 + U * md2)
      nl  == IF SHARE_LOCK THEN f["olock"] ELSE f["nlock"]
  IN [s \in Slots |->
        CASE s \in {"pt0", "st0", "cl0"} -> f["cid"]
          [] s = "pt1" -> f["pt1"]
          [] s \in {"pt2", "rl"} -> f["olock"]
          [] s \in {"pt3", "st3", "cl3"} -> cb
          [] s \in {"pt4", "st4", "cl4"} -> mb
          [] s = "st1" -> f["st1"]
          [] s = "cl1" -> f["cl1"]
          [] s \in {"st2", "cl2"} -> nl
          [] s = "cd1" -> cd1 [] s = "cd2" -> cd2 [] s = "md1" -> md1 [] s = "md2" -> md2]
(* independently hidden values (the old nonce and the close tag are public) and the slots each one moves *)
Secrets == {"cid", "olock", "nnonce", "nlock", "cd1", "cd2", "md1", "md2"}
Dir(k) == [s \in Slots |->
        CASE k = "cid"    -> IF s \in {"pt0", "st0", "cl0"} THEN 1 ELSE 0
          [] k = "olock"  -> IF s \in {"pt2", "rl"} THEN 1 ELSE 0
          [] k = "nnonce" -> IF s = "st1" THEN 1 ELSE 0
          [] k = "nlock"  -> IF s \in {"st2", "cl2"} THEN 1 ELSE 0
          [] k = "cd1"    -> IF s \in {"cd1", "pt3", "st3", "cl3"} THEN 1 ELSE 0           \* the balance moves with its digit
          [] k = "cd2"    -> IF s = "cd2" THEN 1 ELSE IF s \in {"pt3", "st3", "cl3"} THEN U % P ELSE 0
          [] k = "md1"    -> IF s \in {"md1", "pt4", "st4", "cl4"} THEN 1 ELSE 0
          [] k = "md2"    -> IF s = "md2" THEN 1 ELSE IF s \in {"pt4", "st4", "cl4"} THEN U % P ELSE 0]

VARIABLE x
Init == x = 0
Next == UNCHANGED x
Spec == Init /\ [][Next]_x

InV(v) == \E f \in [Free -> Zp] : T(f) = v
Hiding == \A k \in Secrets : \A c \in Zp : InV([s \in Slots |-> Mod(c * Dir(k)[s])])
FreeDim == \A f \in [Free -> Zp] : (\A s \in Slots : T(f)[s] = 0) => (\A a \in Free : f[a] = 0)
(* number of free scalars of the real proofs (L = 9 digits per balance): the rank Trace_Hiding.tla demands *)
DesignedDim(proof) == IF proof = "establish" THEN 6 ELSE 6 + 2 * 9
=============================================================================
