------------------------------- MODULE RevPair -------------------------------
(***************************************************************************)
(* Revocation pairs (zkabacus-crypto/src/revlock.rs): a pair is            *)
(* (lock, secret, index) with lock = SHA3-256(secret || index) read as a   *)
(* CANONICAL scalar.  About 55% of all digests are not canonical           *)
(* (q ~ 0.45 * 2^256), so generation walks index = 0, 1, 2, ... until the  *)
(* digest is canonical, and decoding must recompute the digest.            *)
(* The hash is abstract: Canon[i] says whether the digest of (secret, i)   *)
(* is a canonical scalar.                                                  *)
(***************************************************************************)
EXTENDS Integers, Sequences, FiniteSets, TLC
CONSTANT MaxIdx                      \* indices explored by the model (real code: u8, 0..255)

VARIABLES canon,    \* [0..MaxIdx -> BOOLEAN]  which indices give a canonical digest for this secret
          idx,      \* generation loop counter
          phase,    \* "gen" | "done" | "decoded"
          pair,     \* generated pair [index, lockIsDigest]
          cand,     \* a decoding candidate [index, lockIsDigest, lockCanonical]
          verdict   \* decode verdict
vars == <<canon, idx, phase, pair, cand, verdict>>

NoPair == [index |-> -1, lockIsDigest |-> FALSE]
NoCand == [index |-> -1, lockIsDigest |-> FALSE, lockCanonical |-> FALSE]

Init == /\ canon \in [0..MaxIdx -> BOOLEAN]
        /\ idx = 0 /\ phase = "gen" /\ pair = NoPair /\ cand = NoCand /\ verdict = "none"

(* RevocationPair::new: one loop iteration *)
GenStep == /\ phase = "gen" /\ idx <= MaxIdx
           /\ IF canon[idx]
              THEN pair' = [index |-> idx, lockIsDigest |-> TRUE] /\ phase' = "done" /\ UNCHANGED idx
              ELSE idx' = idx + 1 /\ UNCHANGED <<pair, phase>>
           /\ UNCHANGED <<canon, cand, verdict>>

(* TryFrom<UncheckedRevocationPair>: recompute the digest of (secret, index); accept iff it is a *)
(* canonical scalar and equals the given lock                                                     *)
DecodeOk(c) == c.lockCanonical /\ canon[c.index] /\ c.lockIsDigest
Decode == /\ phase = "done"
          /\ \E i \in 0..MaxIdx, ld \in BOOLEAN, lc \in BOOLEAN :
                /\ cand' = [index |-> i, lockIsDigest |-> ld, lockCanonical |-> lc]
                /\ verdict' = IF DecodeOk(cand') THEN "ok" ELSE "err"
          /\ phase' = "decoded"
          /\ UNCHANGED <<canon, idx, pair>>
Next == GenStep \/ Decode
Spec == Init /\ [][Next]_vars /\ WF_vars(GenStep)

(* every pair that exists has a lock equal to the canonical digest of its secret and index *)
GeneratedWellFormed == phase \in {"done", "decoded"} => canon[pair.index] /\ pair.lockIsDigest
FirstCanonical      == phase \in {"done", "decoded"} => \A j \in 0..(pair.index - 1) : ~canon[j]
DecodedWellFormed   == (phase = "decoded" /\ verdict = "ok") => canon[cand.index] /\ cand.lockIsDigest
DecodeExact         == phase = "decoded" => (verdict = "ok" <=> DecodeOk(cand))
(* generation terminates whenever some index is canonical *)
Terminates == (\E i \in 0..MaxIdx : canon[i]) ~> (phase # "gen")
=============================================================================
