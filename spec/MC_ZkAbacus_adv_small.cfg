SPECIFICATION Spec
CONSTANTS
  MCMaxBal = 1
  AmtRange = 1
  MaxPays = 2
  MCChannels = {2}
  Channels <- MCChannels
  MerOf <- MCMerOf
  InitBals <- MCInitBals
  Amounts <- MCAmounts
  FaultKinds <- MCNone
  AdvChannels <- MCAdv
  ProofSound = TRUE
  RevKinds <- MCNone
  NAdd <- MCAdd
  NSub <- MCSub
  NLeq <- MCLeq
  NZero = 0
  MaxBal = 1
  UMax = 3
INVARIANTS TypeOK CanClose LedgerShape Conservation HeldSigsValid TagSeparation IssuedMatchesLedger TokenOnlyAfterRevocation ClosedOnUnrevoked MerchantExposureBounded NoDoubleSpend DisputeWindow DisputePunishOld DisputeOutcomeConserves MerchantPayoffBound DisputeCustomerSafe
PROPERTIES RefusedIsInert OutcomeOnlyByCustomer ReleaseOnlyOnAccept RefusedStartInert TokenIffOpens RestoreStutters ReplayRefused FaultRefused HonestAccepted
CHECK_DEADLOCK FALSE
