SPECIFICATION Spec
CONSTANTS Channels = {1, 2}
          MaxPays = 2
          RERANDOMIZE = TRUE
          LEAK = FALSE
          KEEPNONCE = TRUE
PROPERTY NoReuse
INVARIANT NoSecretLeak
CHECK_DEADLOCK FALSE
