---------------------------------- MODULE Wire ----------------------------------
(***************************************************************************)
(* Wire decoders (zkchannels-crypto/src/serde.rs and the `try_from`        *)
(* validators of both crates).                                             *)
(*                                                                         *)
(* Part 1 - role table (module WireRoles).  A leaf is identified by the    *)
(* innermost struct it belongs to, its field name and whether it lies      *)
(* inside a revocation pair; Forbidden(s, f, inPair, class) says whether   *)
(* an encoding of that class must be refused there (the type invariants    *)
(* of C15).                                                                *)
(*                                                                         *)
(* Part 2 - the element-sequence decoders as a step machine: the array     *)
(* visitor (fixed capacity N) and the Vec visitor (pre-allocation from the *)
(* announced length) read one element per step from an untrusted stream.   *)
(* CheckedPush / CappedPrealloc describe the implementation (both TRUE     *)
(* since the fix commits; FALSE reproduces the defects and must violate    *)
(* NoPanic / AllocBounded: MC_Wire_unchecked.cfg).                         *)
(***************************************************************************)
EXTENDS WireRoles, TLC

-----------------------------------------------------------------------------
CONSTANTS N,              \* array capacity
          Big,            \* stands for a hostile announced length (2^32 .. 2^64-1)
          Cap,            \* pre-allocation cap of the Vec visitor (elements)
          CheckedPush, CappedPrealloc
VARIABLES kind,           \* "array" | "vec"
          announced,      \* length prefix read from the stream
          avail,          \* valid elements actually present in the stream
          got,            \* elements pushed so far
          alloc,          \* largest single allocation request (in elements)
          outcome         \* "run" | "ok" | "err" | "panic"
vars == <<kind, announced, avail, got, alloc, outcome>>

Init == /\ kind \in {"array", "vec"}
        /\ announced \in (0..(N + 1)) \cup {Big}
        /\ avail \in 0..(N + 2)
        /\ got = 0 /\ outcome = "run"
        /\ alloc = IF kind = "vec" THEN (IF CappedPrealloc /\ announced > Cap THEN Cap ELSE announced) ELSE N

Step == /\ outcome = "run"
        /\ IF got = announced
           THEN /\ outcome' = IF kind = "array" /\ got # N THEN "err" ELSE "ok"      \* into_inner(): wrong number of elements
                /\ UNCHANGED <<got, alloc>>
           ELSE IF got >= avail
                THEN outcome' = "err" /\ UNCHANGED <<got, alloc>>                    \* end of input / invalid element
                ELSE IF kind = "array" /\ got = N
                     THEN /\ outcome' = IF CheckedPush THEN "err" ELSE "panic"       \* push beyond capacity
                          /\ UNCHANGED <<got, alloc>>
                     ELSE /\ got' = got + 1 /\ UNCHANGED outcome
                          /\ alloc' = IF kind = "vec" /\ got + 1 > alloc THEN 2 * (got + 1) ELSE alloc   \* amortised growth
        /\ UNCHANGED <<kind, announced, avail>>
Next == Step
Spec == Init /\ [][Next]_vars /\ WF_vars(Next)

NoPanic == outcome # "panic"
(* memory requested stays proportional to the input actually present (avail elements + the prefix) *)
AllocBounded == alloc <= 2 * (avail + 1) + Cap + N
OkOnlyIfExact == (outcome = "ok" /\ kind = "array") => got = N /\ announced = N
Terminates == <>(outcome # "run")
=============================================================================
