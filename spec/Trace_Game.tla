------------------------------ MODULE Trace_Game ------------------------------
(***************************************************************************)
(* Validation of adversarial executions of the real composite verifiers    *)
(* (merchant::Config::initialize / allow_payment) against the proof game.  *)
(* Each event is one proof submitted by the harness's adversarial prover:  *)
(*   accepted  - verdict of the real verifier                              *)
(*   atoms     - truth value of every relation of the specified verifier,  *)
(*               evaluated INDEPENDENTLY by the harness on the wire atoms  *)
(*   truth     - whether the statement is true for the hidden values       *)
(*   token_ok  - PS axiom A2 instance: the token proof is on a signed state*)
(*   digits_ok - the same for every digit proof of the range constraints   *)
(*   resp_ok   - the responses are those of the committed values           *)
(*   clusters  - the strategy abstracted into Z_P instances of the cluster *)
(*               shapes, with the late-chosen fields and the OBSERVED      *)
(*               hashed sets                                               *)
(* The specification requires                                              *)
(*   (1) accepted = conjunction of the atoms          (exact verifier)     *)
(*   (2) accepted = model verdict of the game         (GameCore)           *)
(*   (3) accepted => truth                            (soundness, C01/C02) *)
(*   (4) accepted => the returned signatures unblind to valid signatures   *)
(*       on exactly the hidden tuples and on no single-slot variation      *)
(***************************************************************************)
EXTENDS GameShapes, Json, IOUtils, TLC

GP == 7          \* field of the abstract instances
GU == 2
Rec == ndJsonDeserialize(IOEnv.TRACE)
VARIABLE l
IsEv(e) == l <= Len(Rec) /\ Rec[l].ev = e /\ l' = l + 1
r == Rec[l]

ToSet(sq) == {sq[i] : i \in 1..Len(sq)}
AllTrue(rec) == \A k \in DOMAIN rec : rec[k]

(* model verdict for one cluster: the prover answers honestly for its hidden values, so it is *)
(* accepted iff every challenge is answerable with exactly the fields it chose late - provided *)
(* none of those fields is hashed (choosing a hashed field late yields a fresh challenge).     *)
ClusterAccept(cl) ==
  LET mem  == ShapeMembers(cl.shape)
      lateRev == IF cl.lateRev THEN RevS ELSE None
      lateT == ToSet(cl.lateT)   lateC == ToSet(cl.lateC)
      hashedOK == /\ (cl.lateRev => ~cl.hashedRev)
                  /\ lateT \cap ToSet(cl.hashedT) = {}
                  /\ lateC \cap ToSet(cl.hashedC) = {}
      pubs == [q \in {"A", "B"} |-> cl.pub]
      ss   == [q \in RevS |-> cl.s]
  IN hashedOK /\
     GAnswerable(GP, GU, mem, ShapeDigits(cl.shape), ShapeCons(cl.shape, cl.neg), pubs, cl.m, cl.t, ss,
                 lateRev, lateT, lateC) = 0..(GP - 1)

(* resp_ok: every response is the one determined by the committed values and commitment scalars    *)
(* (or was solved from a late-chosen T / C): in the game a challenge is answerable only with that    *)
(* response, any other one fails the Schnorr equation of its sub-proof (Schnorr.tla PerturbationRejects). *)
(* digits_ok: PS axiom A2 instances for the range key - every digit proof is built on a signature    *)
(* valid under the range key on that digit (only the digits 0..u-1 were ever signed).                *)
ModelAccept(e) == e.token_ok /\ e.resp_ok /\ e.digits_ok /\ \A i \in 1..Len(e.clusters) : ClusterAccept(e.clusters[i])

TGame ==
  /\ IsEv("game")
  /\ r.accepted = AllTrue(r.atoms)                 \* (1)
  /\ r.accepted = ModelAccept(r)                   \* (2)
  /\ r.accepted => r.truth                         \* (3)
  /\ r.accepted => AllTrue(r.sigs)                 \* (4)

TNext == TGame
TSpec == l = 1 /\ [][TNext]_l
Accepted ==
  LET n == TLCGet("stats").diameter - 1 IN
  IF n = Len(Rec) THEN TRUE
  ELSE /\ PrintT(<<"TRACE_MISMATCH", "matched", n, "of", Len(Rec), "next_event", ToJson(Rec[n + 1])>>)
       /\ FALSE
=============================================================================
