SPECIFICATION Spec
CONSTANTS P = 3
INVARIANTS Complete Exact PerturbationRejects Simulated SPComplete SPIdentityNeverVerifies SPPerturbationRejects
CHECK_DEADLOCK FALSE
