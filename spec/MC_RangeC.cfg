SPECIFICATION Spec
CONSTANTS U = 3
          L = 2
          Slack = 4
INVARIANTS ProverRoundTrip ProverRefusesNegatives AcceptedImpliesInRange MaxForgeable MaxReached
CHECK_DEADLOCK FALSE
