----------------------------- MODULE Trace_Hiding -----------------------------
(* Validates the commitment-scalar space observed from honest proofs of the real prover (harness `hiding`): the *)
(* designed links hold on every sample and the rank of the recovered commitment-scalar vectors is the number of  *)
(* free scalars of the design (Hiding.tla) - no scalar is shared, fixed or derived beyond the links.             *)
EXTENDS Integers, Sequences, Json, IOUtils, TLC
Rec == ndJsonDeserialize(IOEnv.TRACE)
VARIABLE l
r == Rec[l]
IsEv(e) == l <= Len(Rec) /\ Rec[l].ev = e /\ l' = l + 1
DesignedDim(proof) == IF proof = "establish" THEN 6 ELSE 6 + 2 * 9
THiding == /\ IsEv("hiding")
           /\ r.samples >= r.slots            \* enough samples for the rank to be that of the space
           /\ r.links_hold
           /\ r.rank = DesignedDim(r.proof)
TNext == THiding
TSpec == l = 1 /\ [][TNext]_l
Accepted ==
  LET n == TLCGet("stats").diameter - 1 IN
  IF n = Len(Rec) THEN TRUE
  ELSE /\ PrintT(<<"TRACE_MISMATCH", "matched", n, "of", Len(Rec), "next_event", ToJson(Rec[n + 1])>>)
       /\ FALSE
=============================================================================
