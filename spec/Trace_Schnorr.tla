---------------------------- MODULE Trace_Schnorr ----------------------------
(***************************************************************************)
(* Validates proof executions of the real library (harness `schnorr`)      *)
(* against Schnorr.tla.  Every verifier call carries the independently     *)
(* evaluated relations (atoms): Schnorr equation, sigma1' not identity,    *)
(* pairing link.                                                           *)
(*  honest              -> verifies, builder challenge = proof challenge,  *)
(*                         documented patterns hold on the responses (C10) *)
(*  perturb:<field>     -> rejected at decoding or by the verifier   (C11) *)
(*  challenge / params  -> rejected                                         *)
(*  simulated           -> accepted under its own challenge ...             *)
(*  simulated_other_challenge -> ... and under no other                     *)
(*  identity_signature / signature_on_other_message / signature_by_other_key -> rejected *)
(*  always: verdict = conjunction of the atoms (exactness)                  *)
(***************************************************************************)
EXTENDS Integers, Sequences, Json, IOUtils, TLC
Rec == ndJsonDeserialize(IOEnv.TRACE)
VARIABLE l
r == Rec[l]
IsEv(e) == l <= Len(Rec) /\ Rec[l].ev = e /\ l' = l + 1
AllTrue(rec) == \A k \in DOMAIN rec : rec[k]
IsPerturb(c) == Len(c) >= 8 /\ SubSeq(c, 1, 8) = "perturb:"
Rejecting == {"challenge", "params", "simulated_other_challenge", "identity_signature", "signature_on_other_message", "signature_by_other_key",
              "signature_on_shifted_message_response_shifted", "commitment_cancels_x2"}

TProof ==
  /\ IsEv("proof")
  /\ r.decoded => r.verdict = AllTrue(r.atoms)
  /\ r.case = "honest" => r.decoded /\ r.verdict /\ r.builder_eq_proof /\ AllTrue(r.patterns)
  /\ r.case = "simulated" => r.decoded /\ r.verdict
  /\ r.case = "history_genuine" => r.verdict                    \* whatever was verified before
  \* (history_variant: one field of the parameters replaced - the verdict is that of the relations under the
  \*  parameters passed, first conjunct; a field the verifier does not use leaves it true)
  /\ (IsPerturb(r.case) \/ r.case \in Rejecting) => (~r.decoded \/ ~r.verdict)
  /\ r.case = "identity_signature" => r.is_identity
TPattern == IsEv("pattern") /\ r.verifies /\ AllTrue(r.patterns)
TNext == TProof \/ TPattern
TSpec == l = 1 /\ [][TNext]_l
Accepted ==
  LET n == TLCGet("stats").diameter - 1 IN
  IF n = Len(Rec) THEN TRUE
  ELSE /\ PrintT(<<"TRACE_MISMATCH", "matched", n, "of", Len(Rec), "next_event", ToJson(Rec[n + 1])>>)
       /\ FALSE
=============================================================================
