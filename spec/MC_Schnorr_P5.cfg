SPECIFICATION Spec
CONSTANTS P = 5
INVARIANTS Complete Exact PerturbationRejects Simulated SPComplete SPIdentityNeverVerifies SPPerturbationRejects
CHECK_DEADLOCK FALSE
