------------------------------ MODULE Trace_Range ------------------------------
(***************************************************************************)
(* Validates range-constraint executions (harness `range`) against         *)
(* RangeC.tla.                                                             *)
(*  rangeprover: the prover refuses exactly the negative inputs; an honest *)
(*     constraint verifies iff checked with the same parameters, the same  *)
(*     challenge and against the response scalar of the linked slot        *)
(*  rangeattack: a constraint assembled from published digit signatures:   *)
(*     verdict = all digit proofs valid /\ weighted sum = linked response   *)
(*     (independent atoms); accepted => the linked value is in [0, 2^63);   *)
(*     well-formed assemblies (claimed digit = signed digit) are accepted   *)
(*  rangeparams: validate() accepts exactly the sets whose i-th signature  *)
(*     verifies on digit i (independently evaluated for all 128)           *)
(***************************************************************************)
EXTENDS Integers, Sequences, Json, IOUtils, TLC
Rec == ndJsonDeserialize(IOEnv.TRACE)
VARIABLE l
r == Rec[l]
IsEv(e) == l <= Len(Rec) /\ Rec[l].ev = e /\ l' = l + 1
AllTrue(rec) == \A k \in DOMAIN rec : rec[k]
TProver == /\ IsEv("rangeprover")
           /\ r.out \in {"ok", "err"}
           /\ (r.out = "err") = r.negative
           /\ r.out = "ok" => /\ r.honest.verifies
                              /\ ~r.honest.wrong_slot /\ ~r.honest.other_params /\ ~r.honest.other_challenge
                              /\ ~r.honest.shifted_response /\ ~r.honest.unlinked
TAttack == /\ IsEv("rangeattack")
           /\ (r.decoded \/ ~r.verdict)                \* a constraint the decoder refuses is a rejection
           /\ r.verdict = AllTrue(r.atoms)
           /\ r.verdict => r.linked_value_in_range
           /\ r.verdict = r.well_formed
TParams == /\ IsEv("rangeparams")
           /\ r.validate_ok = r.all_signatures_valid_independently
           /\ r.validate_ok = r.expect_ok
TNext == TProver \/ TAttack \/ TParams
TSpec == l = 1 /\ [][TNext]_l
Accepted ==
  LET n == TLCGet("stats").diameter - 1 IN
  IF n = Len(Rec) THEN TRUE
  ELSE /\ PrintT(<<"TRACE_MISMATCH", "matched", n, "of", Len(Rec), "next_event", ToJson(Rec[n + 1])>>)
       /\ FALSE
=============================================================================
