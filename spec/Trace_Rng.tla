-------------------------------- MODULE Trace_Rng --------------------------------
(***************************************************************************)
(* Validates randomness-driven executions of the real code (harness `c18`, *)
(* `c19`) against Rng.tla and the tag-separation / channel-id statements.  *)
(*  nonce:      Nonce::new on a stream starting with k draws congruent to  *)
(*              the close tag: the output is never the close tag and       *)
(*              exactly k + 1 draws are consumed (Rng.tla: NonceNeverClose,*)
(*              DrawCount)                                                 *)
(*  statenonce: a close-congruent draw at any scalar-draw position of      *)
(*              Requested::new / Ready::start never yields a state or      *)
(*              message nonce equal to the close tag; the state stays      *)
(*              restorable                                                 *)
(*  noncedecode, tagsep, cid: decoder, pay token vs closing signature,     *)
(*              channel-id derivation                                      *)
(*  keygen:     generation under zero windows: every logged fact holds     *)
(*              (Rng.tla: KeyScalarsNonZero)                               *)
(***************************************************************************)
EXTENDS Integers, Sequences, Json, IOUtils, TLC
Rec == ndJsonDeserialize(IOEnv.TRACE)
VARIABLE l
r == Rec[l]
IsEv(e) == l <= Len(Rec) /\ Rec[l].ev = e /\ l' = l + 1
AllTrue(rec) == \A k \in DOMAIN rec : rec[k]

(* (the number of draws consumed, r.draws, is logged for information: the property is about outputs only) *)
TNonce == IsEv("nonce") /\ r.out = "ok" /\ ~r.is_close /\ r.draws >= r.close_prefix + 1
TCrafted == IsEv("crafted") /\ r.reduces_to_close
TStateNonce == IsEv("statenonce") /\ r.out = "ok" /\ ~r.is_close /\ r.restorable
TNonceDecode == IsEv("noncedecode") /\ r.out = (IF r.expect_ok THEN "ok" ELSE "err")
TTagSep == /\ IsEv("tagsep")
           /\ r.closing_message_ok /\ r.stored_closing_signature_ok /\ r.token_as_token
           /\ ~r.token_as_closing_signature /\ ~r.closing_signature_as_token
           /\ r.independent.token_on_state /\ r.independent.closing_on_close_state
           /\ ~r.independent.token_on_close_state /\ ~r.independent.closing_on_state
           /\ r.nonce_differs_from_close_tag
TCid == IsEv("cid") /\ r.changed = r.expect_changed
(* hostile channel-id text: a value or an error, never a panic (a padding-free spelling of the same id is a value) *)
TCidParse == IsEv("cidparse") /\ r.out \in {"err", "other", "same"}
             /\ (r.out # "err" => r.payload_len = 32)        \* a text accepted as an id spells exactly 32 bytes
TKeygen == IsEv("keygen") /\ r.out = "ok" /\ AllTrue(r.facts)
TNext == TNonce \/ TCrafted \/ TStateNonce \/ TNonceDecode \/ TTagSep \/ TCid \/ TCidParse \/ TKeygen
TSpec == l = 1 /\ [][TNext]_l
Accepted ==
  LET n == TLCGet("stats").diameter - 1 IN
  IF n = Len(Rec) THEN TRUE
  ELSE /\ PrintT(<<"TRACE_MISMATCH", "matched", n, "of", Len(Rec), "next_event", ToJson(Rec[n + 1])>>)
       /\ FALSE
=============================================================================
