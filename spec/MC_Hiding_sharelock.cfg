SPECIFICATION Spec
CONSTANTS P = 3
          U = 2
          SHARE_LOCK = TRUE
          DIGIT_SHARES = FALSE
INVARIANTS Hiding FreeDim
CHECK_DEADLOCK FALSE
