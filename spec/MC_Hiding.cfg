SPECIFICATION Spec
CONSTANTS P = 3
          U = 2
          SHARE_LOCK = FALSE
          DIGIT_SHARES = FALSE
INVARIANTS Hiding FreeDim
CHECK_DEADLOCK FALSE
