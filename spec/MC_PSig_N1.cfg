SPECIFICATION Spec
CONSTANTS P = 5
          N = 1
          MaxOps = 3
INVARIANTS VerifyExact SingleChangeRejects DegenerateNeverVerifies WrongFactorRejects
CHECK_DEADLOCK FALSE
