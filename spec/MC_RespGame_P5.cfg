SPECIFICATION Spec
CONSTANTS P = 5
          BATCH = FALSE
INVARIANTS ForcedResponse Sound Complete
CHECK_DEADLOCK FALSE
