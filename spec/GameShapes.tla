------------------------------ MODULE GameShapes ------------------------------
(***************************************************************************)
(* The cluster shapes of EstablishProof::verify and PayProof::verify       *)
(* (zkabacus-crypto/src/proofs.rs), shared by the exhaustive game          *)
(* (MC_Game) and by trace validation of adversarial executions             *)
(* (Trace_Game).                                                           *)
(*  shape   members                 constraints                            *)
(*  Open1   a                       open(a, B, s)                          *)
(*  Open2   a, b                    open(a, B, s), open(b, B, s)           *)
(*  Eq2     a, b                    eq(a, b)                               *)
(*  Eq3     a, b, c                 eq(a, b), eq(b, c)                     *)
(*  Bal1    pt, st, cl, d1          eq(st, cl), pubadd(st, pt, A), range(st, <<d1>>)        *)
(*  Bal2    pt, st, cl, d1, d2      eq(st, cl), pubadd(st, pt, A), range(st, <<d1, d2>>)    *)
(* Establish: cid = Open2(state[0], close[0]), tag = Open1(close[1]),      *)
(*   lock = Eq2(state[2], close[2]), cb / mb = Open2(state[i], close[i]).  *)
(* Pay: cid = Eq3(state[0], close[0], token[0]), nonce = Open1(token[1]),  *)
(*   tag = Open1(close[1]), old lock = Eq2(rl[0], token[2]), new lock =    *)
(*   Eq2(state[2], close[2]), cb = Bal(neg), mb = Bal(pos).                *)
(***************************************************************************)
EXTENDS GameCore

K(k, a, b, pb, rv, ng, ds) == [k |-> k, a |-> a, b |-> b, pub |-> pb, rev |-> rv, neg |-> ng, ds |-> ds]
Open(a)        == K("open", a, a, "B", "s", FALSE, <<>>)
Eq(a, b)       == K("eq", a, b, "B", "s", FALSE, <<>>)
PubAdd(a, b, n) == K("pubadd", a, b, "A", "s", n, <<>>)
Range(a, ds)   == K("range", a, a, "A", "s", FALSE, ds)

Open1Members == {"a"}            Open1Cons == {Open("a")}
Open2Members == {"a", "b"}       Open2Cons == {Open("a"), Open("b")}
Eq2Members   == {"a", "b"}       Eq2Cons   == {Eq("a", "b")}
Eq3Members   == {"a", "b", "c"}  Eq3Cons   == {Eq("a", "b"), Eq("b", "c")}
Bal1Members  == {"pt", "st", "cl", "d1"}
Bal1NegCons  == {Eq("st", "cl"), PubAdd("st", "pt", TRUE),  Range("st", <<"d1">>)}
Bal1PosCons  == {Eq("st", "cl"), PubAdd("st", "pt", FALSE), Range("st", <<"d1">>)}
Bal2Members  == {"pt", "st", "cl", "d1", "d2"}
Bal2NegCons  == {Eq("st", "cl"), PubAdd("st", "pt", TRUE),  Range("st", <<"d1", "d2">>)}
Bal2PosCons  == {Eq("st", "cl"), PubAdd("st", "pt", FALSE), Range("st", <<"d1", "d2">>)}
NoRange      == {Eq("st", "cl"), PubAdd("st", "pt", TRUE)}      \* spec mutant: range link dropped
PubB == {"B"}   PubA == {"A"}   RevS == {"s"}   None == {}
D1 == {"d1"}    D12 == {"d1", "d2"}


ShapeMembers(sh) == CASE sh = "Open1" -> Open1Members [] sh = "Open2" -> Open2Members
                      [] sh = "Eq2" -> Eq2Members [] sh = "Eq3" -> Eq3Members
                      [] sh = "Bal1" -> Bal1Members [] sh = "Bal2" -> Bal2Members
ShapeCons(sh, neg) == CASE sh = "Open1" -> Open1Cons [] sh = "Open2" -> Open2Cons
                        [] sh = "Eq2" -> Eq2Cons [] sh = "Eq3" -> Eq3Cons
                        [] sh = "Bal1" -> (IF neg THEN Bal1NegCons ELSE Bal1PosCons)
                        [] sh = "Bal2" -> (IF neg THEN Bal2NegCons ELSE Bal2PosCons)
ShapeDigits(sh) == CASE sh = "Bal1" -> D1 [] sh = "Bal2" -> D12 [] OTHER -> None
=============================================================================
