------------------------------- MODULE RespGame -------------------------------
(***************************************************************************)
(* The response level of the proof game.  GameCore.tla takes for granted   *)
(* that, once a sub-proof's commitment C and scalar commitment T are       *)
(* fixed, the verifier accepts exactly ONE response per challenge          *)
(*      z = t + c * m        ("response forced by the Schnorr equation")   *)
(* This module states where that comes from - every sub-proof's Schnorr    *)
(* equation is checked ON ITS OWN - and what happens otherwise.            *)
(*                                                                         *)
(* Two commitment sub-proofs a, b under the same generator Y (exponent     *)
(* instance: a group element is its coefficient of Y; the blinding         *)
(* coordinate behaves identically and is left out), linked by the          *)
(* conjunction constraint z_a = z_b ("both hide the same value").  Before  *)
(* the challenge the prover fixes m, t (hence C = m*Y, T = t*Y); after it, *)
(* ANY responses.  The verifier checks                                     *)
(*      z_i * Y = T_i + c * C_i    for i = a and for i = b                 *)
(* or, with BATCH = TRUE (the spec mutant: an unweighted "batch"           *)
(* verification), only the SUM of the two equations.                       *)
(* TLC checks, for every m, t over Z_P:                                    *)
(*   ForcedResponse - every accepted response vector is the forced one     *)
(*   Sound          - two answerable challenges imply m_a = m_b            *)
(*   Complete       - the honest prover is answerable for every challenge  *)
(* and with BATCH = TRUE exhibits the COMPENSATING-LIES prover             *)
(* (m_a = v + d, m_b = v - d, responses as for v): Sound must fail.        *)
(* Trace_Game.tla relies on ForcedResponse through the field resp_ok.      *)
(***************************************************************************)
EXTENDS Integers, FiniteSets, TLC
CONSTANTS P, BATCH
Zp == 0..(P - 1)
S == {"a", "b"}
Add(x, y) == (x + y) % P
Mul(x, y) == (x * y) % P

VARIABLES m, t
vars == <<m, t>>
Init == m \in [S -> Zp] /\ t \in [S -> Zp]
Next == UNCHANGED vars
Spec == Init /\ [][Next]_vars

Forced(i, c) == Add(t[i], Mul(c, m[i]))
Eq(i, c, z) == z[i] = Forced(i, c)
EqSum(c, z) == Add(z["a"], z["b"]) = Add(Forced("a", c), Forced("b", c))
Link(z) == z["a"] = z["b"]
Verify(c, z) == Link(z) /\ (IF BATCH THEN EqSum(c, z) ELSE Eq("a", c, z) /\ Eq("b", c, z))
Answerable == {c \in Zp : \E z \in [S -> Zp] : Verify(c, z)}

ForcedResponse == \A c \in Zp : \A z \in [S -> Zp] : Verify(c, z) => \A i \in S : z[i] = Forced(i, c)
Sound == Cardinality(Answerable) >= 2 => m["a"] = m["b"]
Complete == (m["a"] = m["b"] /\ t["a"] = t["b"]) => Answerable = Zp
=============================================================================
