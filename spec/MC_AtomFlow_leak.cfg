SPECIFICATION Spec
CONSTANTS Channels = {1, 2}
          MaxPays = 2
          RERANDOMIZE = TRUE
          LEAK = TRUE
          KEEPNONCE = FALSE
PROPERTY NoReuse
INVARIANT NoSecretLeak
CHECK_DEADLOCK FALSE
