------------------------------ MODULE MC_Ledger ------------------------------
(***************************************************************************)
(* Exhaustive check of Ledger.tla on a W-bit machine (every u and every    *)
(* signed amount a W-bit machine can hold, every pair of balances), of the *)
(* refinement "limb arithmetic (Big) = integer arithmetic", and of the     *)
(* scalar-encoding homomorphism enc(b) -/+ enc(a) = enc(b -/+ a) in Z_p.   *)
(* Decides the model half of C17 (and the ledger lemmas C04 relies on).    *)
(***************************************************************************)
EXTENDS Integers, Sequences, FiniteSets, TLC
CONSTANTS W,            \* word size
          P             \* prime > 2 * UMax, stands for the scalar field order
RECURSIVE Pow2(_)
Pow2(n) == IF n = 0 THEN 1 ELSE 2 * Pow2(n - 1)
MCMaxBal == Pow2(W - 1) - 1
MCUMax   == Pow2(W) - 1
IMin     == -Pow2(W - 1)

IAdd(a, b) == a + b
ISub(a, b) == a - b
ILeq(a, b) == a <= b
L == INSTANCE Ledger WITH NAdd <- IAdd, NSub <- ISub, NLeq <- ILeq, NZero <- 0,
                          MaxBal <- MCMaxBal, UMax <- MCUMax

Lim == INSTANCE Big WITH B <- 4
LB == INSTANCE Ledger WITH NAdd <- Lim!BigAdd, NSub <- Lim!BigSub, NLeq <- Lim!BigLeq,
                           NZero <- Lim!BigZero, MaxBal <- Lim!BigOfInt(MCMaxBal),
                           UMax <- Lim!BigOfInt(MCUMax)

U64 == 0..MCUMax                 \* every unsigned machine word
I64 == IMin..MCMaxBal            \* every signed machine word (IMin only reachable by decoding)
Bal == 0..MCMaxBal
AmtOf(i) == [neg |-> i < 0, mag |-> IF i < 0 THEN -i ELSE i]
BigAmt(a) == [neg |-> a.neg, mag |-> Lim!BigOfInt(a.mag)]
BigRes(r) == [ok |-> r.ok, v |-> Lim!BigOfInt(r.v), err |-> r.err]

\* scalar encoding in Z_P
Mod(x)     == ((x % P) + P) % P
Enc(b)     == Mod(b)
EncAmt(am) == IF am.neg THEN Mod(P - Mod(am.mag)) ELSE Mod(am.mag)

VARIABLES cb, mb, i, u
vars == <<cb, mb, i, u>>
Init == cb \in Bal /\ mb \in Bal /\ i \in I64 /\ u \in U64
Next == UNCHANGED vars

a == AmtOf(i)

\* --- constructors: succeed exactly when the value is in range, then exact -------------
TryNewExact   == LET r == L!TryNew(u) IN
                   /\ r.ok <=> u <= MCMaxBal
                   /\ r.ok => r.v = u
                   /\ ~r.ok => r.err = "AmountTooLarge"
PayCtorsExact == LET pm == L!PayMerchant(u)  pc == L!PayCustomer(u) IN
                   /\ pm.ok <=> u <= MCMaxBal
                   /\ pc.ok <=> u <= MCMaxBal
                   /\ pm.ok => pm.v = AmtOf(u)
                   /\ pc.ok => pc.v = AmtOf(-u)
                   /\ ~pm.ok => pm.err = "AmountTooLarge" /\ pc.err = "AmountTooLarge"
\* --- application: total, exact, range preserving, documented error otherwise ---------
ApplyExact ==
  LET rc == L!ApplyC(cb, a)  rm == L!ApplyM(mb, a) IN
    /\ rc.ok <=> (cb - i) \in Bal
    /\ rc.ok => rc.v = cb - i
    /\ ~rc.ok => rc.err = IF cb - i < 0 THEN "InsufficientFunds" ELSE "AmountTooLarge"
    /\ rm.ok <=> (mb + i) \in Bal
    /\ rm.ok => rm.v = mb + i
    /\ ~rm.ok => rm.err = IF mb + i < 0 THEN "InsufficientFunds" ELSE "AmountTooLarge"
Conservation ==
  LET r == L!ApplyBoth(cb, mb, a) IN
    /\ r.ok => r.cb + r.mb = cb + mb /\ r.cb \in Bal /\ r.mb \in Bal
    /\ r.ok <=> ((cb - i) \in Bal /\ (mb + i) \in Bal)
    /\ ~r.ok => r.first \in r.errs /\ r.errs # {}
TryAddExact == LET r == L!TryAdd(mb, cb) IN
                 /\ r.ok <=> mb + cb <= MCMaxBal
                 /\ r.ok => r.v = mb + cb
\* --- the encoding used inside the proofs is a homomorphism on the whole signed range --
EncHom == /\ Mod(Enc(cb) - EncAmt(a)) = Mod(cb - i)
          /\ Mod(Enc(mb) + EncAmt(a)) = Mod(mb + i)
          \* and it is injective on the range, so equal encodings mean equal balances
          /\ \A x \in Bal : Enc(x) = Mod(cb - i) => x = cb - i
\* --- refinement: limb arithmetic computes the same results ---------------------------
LimbRefines ==
  /\ Lim!BigToInt(Lim!BigAdd(Lim!BigOfInt(cb), Lim!BigOfInt(u))) = cb + u
  /\ Lim!BigLeq(Lim!BigOfInt(cb), Lim!BigOfInt(u)) <=> cb <= u
  /\ u <= cb => Lim!BigToInt(Lim!BigSub(Lim!BigOfInt(cb), Lim!BigOfInt(u))) = cb - u
  /\ Lim!BigWF(Lim!BigAdd(Lim!BigOfInt(cb), Lim!BigOfInt(u)))
  /\ LB!ApplyC(Lim!BigOfInt(cb), BigAmt(a)) = BigRes(L!ApplyC(cb, a))
  /\ LB!ApplyM(Lim!BigOfInt(mb), BigAmt(a)) = BigRes(L!ApplyM(mb, a))
  /\ LB!TryNew(Lim!BigOfInt(u)) = BigRes(L!TryNew(u))
  /\ LB!TryAdd(Lim!BigOfInt(mb), Lim!BigOfInt(cb)) = BigRes(L!TryAdd(mb, cb))
=============================================================================
