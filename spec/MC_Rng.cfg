SPECIFICATION Spec
CONSTANTS N = 3
          MaxBad = 3
INVARIANTS NonceNeverClose KeyScalarsNonZero DrawCount
PROPERTIES Terminates
CHECK_DEADLOCK FALSE
