------------------------------ MODULE LedgerInd ------------------------------
(***************************************************************************)
(* The ideal ledger of one channel at TRUE 64-bit constants, for Apalache  *)
(* (unbounded integers): an inductive invariant shows that any number of   *)
(* payments keeps both balances in [0, 2^63-1] and conserves their sum,    *)
(* with payment application exactly as in Ledger.tla (ApplyC / ApplyM on   *)
(* integers).  Checked with                                                *)
(*   apalache-mc check --init=Init    --inv=IndInv --length=0 LedgerInd.tla *)
(*   apalache-mc check --init=IndInit --inv=IndInv --length=1 LedgerInd.tla *)
(***************************************************************************)
EXTENDS Integers
VARIABLES
  \* @type: Int;
  cb,
  \* @type: Int;
  mb,
  \* @type: Int;
  total
MaxBal == 9223372036854775807
IMin == -9223372036854775808

Init == /\ cb \in 0..MaxBal /\ mb \in 0..MaxBal /\ total = cb + mb
(* a payment of any representable amount (including the wire-decodable i64::MIN) *)
Pay(a) == LET nc == cb - a   nm == mb + a IN
            IF nc >= 0 /\ nc <= MaxBal /\ nm >= 0 /\ nm <= MaxBal
            THEN cb' = nc /\ mb' = nm /\ UNCHANGED total          \* accepted
            ELSE UNCHANGED <<cb, mb, total>>                       \* refused: state unchanged
Next == \E a \in IMin..MaxBal : Pay(a)

IndInv == /\ cb \in 0..MaxBal /\ mb \in 0..MaxBal /\ total = cb + mb /\ total \in 0..(2 * MaxBal)
IndInit == IndInv
=============================================================================
