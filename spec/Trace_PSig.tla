------------------------------ MODULE Trace_PSig ------------------------------
(***************************************************************************)
(* Validates executions of real signature chains (harness `psig`) with the *)
(* provenance calculus that PSig.tla proves equivalent to the algebra:     *)
(*   deg = some randomiser / signing exponent was zero                     *)
(*   net = formal sum of blinding factors applied minus removed, as a      *)
(*         vector <<constant, coefficient of generic a, of generic b>>     *)
(* Every verification call carries the independently evaluated atoms       *)
(* s1_is_identity and pairing_eq (bls12_381 pairings on the wire atoms).   *)
(***************************************************************************)
EXTENDS Integers, Sequences, Json, IOUtils, TLC
Rec == ndJsonDeserialize(IOEnv.TRACE)
VARIABLE l
r == Rec[l]
IsEv(e) == l <= Len(Rec) /\ Rec[l].ev = e /\ l' = l + 1

VAdd(a, b) == <<a[1] + b[1], a[2] + b[2], a[3] + b[3]>>
VNeg(a)    == <<-a[1], -a[2], -a[3]>>
RECURSIVE NetOf(_, _)
NetOf(ops, i) ==
  IF i = 0 THEN <<0, 0, 0>>
  ELSE LET o == ops[i]  prev == NetOf(ops, i - 1) IN
       CASE o.op \in {"blind_and_randomize"} -> VAdd(prev, o.bf)
         [] o.op = "unblind"   -> VAdd(prev, VNeg(o.bf))
         [] o.op = "blindsign" -> o.bf                    \* a fresh signature on the blinded message
         [] OTHER -> prev
RECURSIVE DegOf(_, _)
DegOf(ops, i) ==
  IF i = 0 THEN FALSE
  ELSE LET o == ops[i] IN
       IF o.op = "blindsign" THEN o.r = "zero"             \* fresh signature: earlier history is irrelevant
       ELSE DegOf(ops, i - 1) \/ (o.op \in {"randomize", "brandomize", "blind_and_randomize"} /\ o.r = "zero")

TPSig ==
  /\ IsEv("psig")
  /\ LET deg == DegOf(r.ops, Len(r.ops))
         net == NetOf(r.ops, Len(r.ops))
         valid == ~deg /\ net = <<0, 0, 0>>
     IN /\ r.s1_is_identity = deg
        /\ \A i \in 1..Len(r.checks) :
             LET c == r.checks[i] IN
               /\ c.verdict = (~r.s1_is_identity /\ c.pairing_eq)      \* exactly the PS relation
               /\ c.kind = "same" => c.verdict = valid
               /\ c.kind \in {"coord", "otherkey", "wrongbf", "keyfield"} => ~c.verdict
               /\ (c.kind = "pairing_any" /\ deg) => c.pairing_eq         \* the identity signature satisfies the bare equation
(* C08: signature request proofs *)
TRequest ==
  /\ IsEv("request")
  /\ r.out \in {"some", "none"}
  /\ (r.out = "some") = r.schnorr_holds                    \* a blind-signable value iff the request proof verifies
  /\ r.tamper = "none" => r.out = "some"
  /\ r.tamper # "none" => r.out = "none"
(* a blind-signable value exists only as the result of a verifying proof: the proof-gated types cannot be decoded from *)
(* bytes                                                                                                             *)
TCapability == IsEv("capability") /\ ~r.deserialize      \* (whether a one-shot type is clonable is logged, not demanded)
TNext == TPSig \/ TRequest \/ TCapability
TSpec == l = 1 /\ [][TNext]_l
Accepted ==
  LET n == TLCGet("stats").diameter - 1 IN
  IF n = Len(Rec) THEN TRUE
  ELSE /\ PrintT(<<"TRACE_MISMATCH", "matched", n, "of", Len(Rec), "next_event", ToJson(Rec[n + 1])>>)
       /\ FALSE
=============================================================================
