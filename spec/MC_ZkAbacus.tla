---------------------------- MODULE MC_ZkAbacus ----------------------------
(* Bounded instance of ZkAbacus.tla on TLC integers, plus behaviour export. *)
EXTENDS ZkAbacus, Json
CONSTANTS MCMaxBal, MCChannels, AmtRange

MCAdd(a, b) == a + b
MCSub(a, b) == a - b
MCLeq(a, b) == a <= b
MCMerOf(ch) == IF ch = 2 THEN "M2" ELSE "M1"
MCInitBals  == {<<c, m>> : c \in 0..MCMaxBal, m \in 0..MCMaxBal}
MCAmounts   == {[neg |-> i < 0, mag |-> IF i < 0 THEN -i ELSE i] : i \in (-AmtRange)..AmtRange}
MCFaults    == {"garbage", "altbal", "altcid", "altlock", "wrongtype", "oldstate", "otherkey", "wrongbf", "identity", "smallorder", "swapbal", "altslot2", "otherbf", "altcid_hi"}
MCRevKinds  == {"newstate", "wrongbf", "otherchan", "bothwrong", "laterindex", "shiftedbf"}
MCNone      == {}
MCInitBalsCover == {<<0, 0>>, <<7, 0>>, <<0, 7>>, <<3, 4>>, <<7, 7>>, <<1, 6>>}
MCAdv       == {2}
HonestSpec  == Init /\ [][HonestNext]_vars

\* the view hides the bookkeeping variable `last` (action properties are still checked per transition)
View == <<cust, led, c2m, m2c, vbs, pend, issued, revealed, nonces, wire, closed, spent>>
=============================================================================
