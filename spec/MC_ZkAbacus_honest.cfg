SPECIFICATION FairSpec
CONSTANTS
  MCMaxBal = 3
  AmtRange = 4
  MaxPays = 2
  MCChannels = {1}
  Channels <- MCChannels
  MerOf <- MCMerOf
  InitBals <- MCInitBals
  Amounts <- MCAmounts
  FaultKinds <- MCNone
  AdvChannels <- MCNone
  ProofSound = TRUE
  RevKinds <- MCNone
  NAdd <- MCAdd
  NSub <- MCSub
  NLeq <- MCLeq
  NZero = 0
  MaxBal = 3
  UMax = 7
INVARIANTS TypeOK CanClose LedgerShape Conservation HeldSigsValid TagSeparation IssuedMatchesLedger TokenOnlyAfterRevocation ClosedOnUnrevoked MerchantExposureBounded NoDoubleSpend DisputeWindow DisputePunishOld DisputeOutcomeConserves MerchantPayoffBound DisputeCustomerSafe
PROPERTIES RefusedStartInert HonestAccepted ReleaseOnlyOnAccept EventuallySettled
CHECK_DEADLOCK FALSE
