SPECIFICATION TSpec
POSTCONDITION Accepted
CHECK_DEADLOCK FALSE
