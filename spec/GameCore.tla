------------------------------- MODULE GameCore -------------------------------
(***************************************************************************)
(* Pure operators of the proof game (no constants, no variables) so that   *)
(* the exhaustive game (ProofGame.tla) and the validation of adversarial   *)
(* executions of the real verifiers (Trace_Game.tla) evaluate EXACTLY the  *)
(* same definitions.  A cluster instance is passed as a record G:          *)
(*   G.P, G.U, G.members, G.cons, G.digits,                                *)
(*   G.m, G.t : [members -> Z_P],  G.s : [revs -> Z_P],  G.pub             *)
(* See ProofGame.tla for the meaning.                                      *)
(***************************************************************************)
EXTENDS Integers, Sequences, FiniteSets

GAdd(P, a, b) == (a + b) % P
GSub(P, a, b) == (a - b + P) % P
GMul(P, a, b) == (a * b) % P

RECURSIVE GWSum(_, _, _, _, _)
GWSum(P, U, f, ds, j) == IF j > Len(ds) THEN 0 ELSE GAdd(P, f[ds[j]], GMul(P, U, GWSum(P, U, f, ds, j + 1)))

(* response forced by the Schnorr equation in the AGM *)
GZ(P, mm, tt, x, c) == GAdd(P, tt[x], GMul(P, c, mm[x]))

GHolds(P, U, members, pub, k, c, mm, tt, ss) ==
  CASE k.k = "open"   -> GZ(P, mm, tt, k.a, c) = GAdd(P, GMul(P, c, pub[k.pub]), ss[k.rev])
    [] k.k = "eq"     -> GZ(P, mm, tt, k.a, c) = GZ(P, mm, tt, k.b, c)
    [] k.k = "pubadd" -> GZ(P, mm, tt, k.a, c) =
                            IF k.neg THEN GSub(P, GZ(P, mm, tt, k.b, c), GMul(P, c, pub[k.pub]))
                                     ELSE GAdd(P, GZ(P, mm, tt, k.b, c), GMul(P, c, pub[k.pub]))
    [] k.k = "range"  -> GZ(P, mm, tt, k.a, c) =
                            GWSum(P, U, [x \in members |-> GZ(P, mm, tt, x, c)], k.ds, 1)

GOver(f, late, D) == [x \in DOMAIN f |-> IF x \in D THEN late[x] ELSE f[x]]

(* the verifier accepts challenge c for SOME choice of the values in lateRev / lateT / lateC *)
GAcc(P, U, members, digits, cons, pub, mm, tt, ss, lateRev, lateT, lateC, c) ==
  \E ls \in [lateRev -> 0..(P - 1)] : \E lt \in [lateT -> 0..(P - 1)] : \E lm \in [lateC -> 0..(P - 1)] :
     /\ \A d \in digits \cap lateC : lm[d] \in 0..(U - 1)
     /\ \A k \in cons : GHolds(P, U, members, pub, k, c, GOver(mm, lm, lateC), GOver(tt, lt, lateT), GOver(ss, ls, lateRev))

GAnswerable(P, U, members, digits, cons, pub, mm, tt, ss, lateRev, lateT, lateC) ==
  {c \in 0..(P - 1) : GAcc(P, U, members, digits, cons, pub, mm, tt, ss, lateRev, lateT, lateC, c)}

GStatementOf(P, U, pub, mm, k) ==
  CASE k.k = "open"   -> mm[k.a] = pub[k.pub]
    [] k.k = "eq"     -> mm[k.a] = mm[k.b]
    [] k.k = "pubadd" -> mm[k.a] = IF k.neg THEN GSub(P, mm[k.b], pub[k.pub]) ELSE GAdd(P, mm[k.b], pub[k.pub])
    [] k.k = "range"  -> mm[k.a] = GWSum(P, U, mm, k.ds, 1)
=============================================================================
