SPECIFICATION Spec
CONSTANTS P = 5
          N = 2
          MaxOps = 2
INVARIANTS VerifyExact SingleChangeRejects DegenerateNeverVerifies WrongFactorRejects
CHECK_DEADLOCK FALSE
