------------------------------ MODULE ZkAbacus ------------------------------
(***************************************************************************)
(* The zkAbacus channel protocol as implemented by zkabacus-crypto:        *)
(* customer type-state machine (customer.rs), stateless merchant with the  *)
(* one intermediate object Unrevoked (merchant.rs), state / close state /  *)
(* signatures (states.rs), balances (lib.rs, via Ledger.tla).              *)
(*                                                                         *)
(* One action per public API call.  Cryptography is symbolic:              *)
(*  - a state of channel ch is identified by its index k; it carries the   *)
(*    fresh nonce <<"n",ch,k>>, the fresh revocation lock <<ch,k>> and the  *)
(*    balances led[ch][k+1];                                               *)
(*  - a (blind) signature is a term [key, msg, bf, wf]; unblinding with a  *)
(*    factor other than bf yields a signature on garbage; verification    *)
(*    succeeds iff wf (sigma1 not the identity), the key matches and the   *)
(*    message tuple is exactly the expected one (justified by PSig.tla);   *)
(*  - a proof is a term carrying the statement it was built for and the    *)
(*    hidden values; the merchant accepts iff they agree with its own      *)
(*    verification tuple (justified by ProofGame.tla: soundness,           *)
(*    completeness, tuple binding).                                        *)
(* Numbers are abstract (Ledger.tla) so the same actions run on small      *)
(* integers (MC_ZkAbacus) and on 64-bit limb numbers (Trace_ZkAbacus).     *)
(***************************************************************************)
EXTENDS Integers, Sequences, FiniteSets, TLC

CONSTANTS Channels,        \* finite set of positive integers (channel ids)
          MerOf(_),        \* the merchant (key id) a channel is opened with
          InitBals,        \* set of <<cb, mb>> pairs channels may be opened with
          Amounts,         \* set of signed amounts [neg, mag] a payment may be started with
          MaxPays,         \* bound on payments started per channel (model checking only)
          FaultKinds,      \* fault alphabet enabled at merchant replies
          RevKinds,        \* wrong-revocation candidates enabled at complete_payment
          AdvChannels,     \* channels driven by a MALICIOUS customer (adversarial prover) instead of the honest one
          ProofSound,      \* TRUE iff the composite proofs are sound for the transcript OBSERVED on the code
                           \*   (decided by ProofGame.tla in checks C01 / C02); FALSE reproduces defects F1 / F2
          NAdd(_, _), NSub(_, _), NLeq(_, _), NZero, MaxBal, UMax

L == INSTANCE Ledger

VARIABLES cust,      \* [Channels -> customer record]         (customer.rs stages)
          led,       \* [Channels -> Seq(<<cb, mb>>)]          ideal ledger; led[ch][k+1] = balances of state k
          c2m,       \* [Channels -> customer message in flight]
          m2c,       \* [Channels -> honest merchant reply in flight]
          vbs,       \* [Channels -> verified blinded state the merchant holds for activate]
          pend,      \* [Channels -> merchant's Unrevoked object]
          issued,    \* ghost: every signature a merchant key produced, as [key, msg]
          revealed,  \* revocation locks disclosed in lock messages
          nonces,    \* merchant's nonce database (usage obligation of allow_payment)
          wire,      \* every honest merchant reply ever sent (replay pool)
          closed,    \* [Channels -> closing message or NoClose]
          spent,     \* [Channels -> Seq(state index)]  ghost: the token each accepted payment consumed
          last       \* the step just taken: [act, ch, arg, out]  (export + action properties)

vars == <<cust, led, c2m, m2c, vbs, pend, issued, revealed, nonces, wire, closed, spent, last>>

-----------------------------------------------------------------------------
(* Terms *)
CloseTag      == <<"CLOSE", 0, 0>>
NonceOf(ch,k) == <<"n", ch, k>>
LockOf(ch,k)  == <<ch, k>>
Bal(ch, k)    == led[ch][k + 1]

StateMsg(ch, k) == <<ch, NonceOf(ch, k), LockOf(ch, k), Bal(ch, k)[1], Bal(ch, k)[2]>>
CloseMsg(ch, k) == <<ch, CloseTag,       LockOf(ch, k), Bal(ch, k)[1], Bal(ch, k)[2]>>
GarbageMsg      == <<0, <<"g", 0, 0>>, <<0, 0>>, NZero, NZero>>
MsgOf(typ, ch, k) == IF typ = "close" THEN CloseMsg(ch, k) ELSE StateMsg(ch, k)

Bf(ch, k, kind) == <<ch, k, kind>>            \* blinding factor ids: kind in {"close","token","rl"}
NoBf            == <<0, 0, "none">>

Sig(key, msg, bf, wf) == [key |-> key, msg |-> msg, bf |-> bf, wf |-> wf]
NoSig     == Sig("none", GarbageMsg, NoBf, FALSE)
Unblind(s, bf) == Sig(s.key, IF s.bf = bf THEN s.msg ELSE GarbageMsg, NoBf, s.wf)
Verify(s, key, msg) == s.wf /\ s.key = key /\ s.msg = msg

NoMsg   == [kind |-> "none", k |-> 0, amt |-> [neg |-> FALSE, mag |-> NZero], bf |-> NoBf]
NoClose == [has |-> FALSE, ch |-> 0, k |-> 0, cb |-> NZero, mb |-> NZero]
NoPend  == [has |-> FALSE, k |-> 0]
NoVbs   == [has |-> FALSE, k |-> 0]
Step(act, ch, arg, out) == [act |-> act, ch |-> ch, arg |-> arg, out |-> out, aux |-> NoBf]

Stages == {"none", "requested", "inactive", "ready", "started", "locked", "closed", "adv"}

-----------------------------------------------------------------------------
Init ==
  /\ cust = [ch \in Channels |-> [stage |-> "none", k |-> 0, csig |-> NoSig, tok |-> NoSig]]
  /\ led = [ch \in Channels |-> <<>>]
  /\ c2m = [ch \in Channels |-> NoMsg]
  /\ m2c = [ch \in Channels |-> NoSig]
  /\ vbs = [ch \in Channels |-> NoVbs]
  /\ pend = [ch \in Channels |-> NoPend]
  /\ issued = {}
  /\ revealed = {}
  /\ nonces = {}
  /\ wire = {}
  /\ closed = [ch \in Channels |-> NoClose]
  /\ spent = [ch \in Channels |-> <<>>]
  /\ last = Step("init", 0, "", "ok")

-----------------------------------------------------------------------------
(* What the customer expects from the merchant at its current stage:          *)
(* <<type, state index, blinding factor>>  (customer.rs: complete / activate / *)
(* lock / unlock)                                                              *)
Expect(ch) ==
  LET c == cust[ch] IN
  CASE c.stage = "requested" -> <<"close", 0,       Bf(ch, 0, "close")>>
    [] c.stage = "inactive"  -> <<"token", 0,       Bf(ch, 0, "token")>>
    [] c.stage = "started"   -> <<"close", c.k + 1, Bf(ch, c.k + 1, "close")>>
    [] c.stage = "locked"    -> <<"token", c.k,     Bf(ch, c.k, "token")>>
    [] OTHER                 -> <<"none", 0, NoBf>>
Waiting(ch) == Expect(ch)[1] # "none"

(* The state the customer would close on (customer.rs: *::close).  While a     *)
(* payment is only started this is still the OLD state.                        *)
Closable(ch)  == cust[ch].stage \in {"inactive", "ready", "started", "locked"}
CloseIdx(ch)  == cust[ch].k
ClosingMsg(ch) == [has |-> TRUE, ch |-> ch, k |-> CloseIdx(ch),
                   cb |-> Bal(ch, CloseIdx(ch))[1], mb |-> Bal(ch, CloseIdx(ch))[2]]

(* merchant::Config::check_close_signature on the customer's current closing message *)
MerchantAcceptsClose(ch) ==
  Verify(cust[ch].csig, MerOf(ch), CloseMsg(ch, CloseIdx(ch)))

-----------------------------------------------------------------------------
(* Customer actions *)

(* customer::Requested::new *)
Request(ch, bal) ==
  /\ cust[ch].stage = "none"
  /\ cust' = [cust EXCEPT ![ch].stage = "requested"]
  /\ led' = [led EXCEPT ![ch] = <<bal>>]
  /\ c2m' = [c2m EXCEPT ![ch] = [kind |-> "establish", k |-> 0, amt |-> NoMsg.amt, bf |-> NoBf]]
  /\ last' = Step("request", ch, bal, "ok")
  /\ UNCHANGED <<m2c, vbs, pend, issued, revealed, nonces, wire, closed, spent>>

(* The customer receives reply r (honest, faulty or replayed) at a reply point:  *)
(* Requested::complete, Inactive::activate, Started::lock, Locked::unlock.       *)
(* Accepted iff r unblinds, with the blinding factor of THIS request, to a valid *)
(* signature under the merchant's key on exactly the expected (close) state;     *)
(* otherwise refused and the customer state is unchanged.  The revocation pair   *)
(* of the old state is released only by the accepting lock step.                 *)
Receive(ch, r, how) ==
  LET e   == Expect(ch)
      s   == Unblind(r, e[3])
      good == Verify(s, MerOf(ch), MsgOf(e[1], ch, e[2]))
      c   == cust[ch]
  IN
  /\ Waiting(ch)
  /\ IF good
     THEN /\ CASE c.stage = "requested" ->
                    /\ cust' = [cust EXCEPT ![ch].stage = "inactive", ![ch].csig = s]
                    /\ UNCHANGED <<revealed, c2m>>
               [] c.stage = "inactive" ->
                    /\ cust' = [cust EXCEPT ![ch].stage = "ready", ![ch].tok = s]
                    /\ UNCHANGED <<revealed, c2m>>
               [] c.stage = "started" ->
                    /\ cust' = [cust EXCEPT ![ch].stage = "locked", ![ch].k = c.k + 1,
                                            ![ch].csig = s, ![ch].tok = NoSig]
                    /\ revealed' = revealed \cup {LockOf(ch, c.k)}
                    /\ c2m' = [c2m EXCEPT ![ch] = [kind |-> "lock", k |-> c.k, amt |-> NoMsg.amt,
                                                   bf |-> Bf(ch, c.k, "rl")]]
               [] c.stage = "locked" ->
                    /\ cust' = [cust EXCEPT ![ch].stage = "ready", ![ch].tok = s]
                    /\ UNCHANGED <<revealed, c2m>>
          /\ last' = [Step("receive", ch, how, "ok") EXCEPT !.aux = r.bf]
     ELSE /\ UNCHANGED <<cust, revealed, c2m>>
          /\ last' = [Step("receive", ch, how, "refused") EXCEPT !.aux = r.bf]

(* honest delivery of the merchant's reply *)
Deliver(ch) ==
  /\ m2c[ch] # NoSig
  /\ Receive(ch, m2c[ch], "honest")
  /\ m2c' = [m2c EXCEPT ![ch] = IF last'.out = "ok" THEN NoSig ELSE m2c[ch]]
  /\ UNCHANGED <<led, vbs, pend, issued, nonces, wire, closed, spent>>

(* The fault alphabet of C03: what a faulty / malicious merchant can send instead.  *)
(* e = <<type, k, bf>> expected by the customer.  The strongest faults are valid     *)
(* merchant-key signatures with the RIGHT blinding factor on a WRONG message.       *)
OtherType(t) == IF t = "close" THEN "token" ELSE "close"
AltNum(x)  == IF x = NZero THEN MaxBal ELSE NZero          \* some balance different from x
FaultReply(ch, f) ==
  LET e == Expect(ch)   m == MsgOf(e[1], ch, e[2])   key == MerOf(ch) IN
  CASE f = "garbage"   -> Sig("bad", GarbageMsg, NoBf, TRUE)
    [] f = "altbal"    -> Sig(key, [m EXCEPT ![4] = AltNum(m[4])], e[3], TRUE)
    [] f = "altcid"    -> Sig(key, [m EXCEPT ![1] = 0], e[3], TRUE)
    [] f = "altcid_hi" -> Sig(key, [m EXCEPT ![1] = 0 - 1], e[3], TRUE)          \* the id with a top bit flipped: another id
    [] f = "altlock"   -> Sig(key, [m EXCEPT ![3] = <<0, 0>>], e[3], TRUE)
    [] f = "wrongtype" -> Sig(key, MsgOf(OtherType(e[1]), ch, e[2]), e[3], TRUE)
    [] f = "oldstate"  -> IF e[2] > 0 THEN Sig(key, MsgOf(e[1], ch, e[2] - 1), e[3], TRUE)     \* right type, PREVIOUS state
                                      ELSE Sig(key, [m EXCEPT ![5] = AltNum(m[5])], e[3], TRUE)
    [] f = "otherkey"  -> Sig("other", m, e[3], TRUE)
    [] f = "wrongbf"   -> Sig(key, m, NoBf, TRUE)
    [] f = "identity"  -> Sig(key, m, e[3], FALSE)
    [] f = "otherbf"   -> Sig(key, m, Bf(ch, e[2], OtherType(e[1])), TRUE)                                  \* blinded with the customer's OTHER factor
    [] f = "swapbal"   -> IF m[4] # m[5] THEN Sig(key, [m EXCEPT ![4] = m[5], ![5] = m[4]], e[3], TRUE)      \* the two balances exchanged
                                         ELSE Sig(key, [m EXCEPT ![4] = AltNum(m[4])], e[3], TRUE)
    [] f = "altslot2"  -> Sig(key, [m EXCEPT ![2] = <<"alt", 0, 0>>], e[3], TRUE)                        \* another nonce / another tag
    [] f = "smallorder" -> Sig("nongroup", GarbageMsg, NoBf, TRUE)   \* sigma1 on the curve but outside G1: not a signature of any key
    [] OTHER           -> NoSig

Fault(ch, f) ==
  /\ Waiting(ch)
  /\ Receive(ch, FaultReply(ch, f), f)
  /\ UNCHANGED <<led, m2c, vbs, pend, issued, nonces, wire, closed, spent>>

(* a reply recorded earlier in any session / channel is presented again *)
Replay(ch, r) ==
  /\ Waiting(ch)
  /\ r \in wire /\ r # m2c[ch]
  /\ Receive(ch, r, "replay")
  /\ UNCHANGED <<led, m2c, vbs, pend, issued, nonces, wire, closed, spent>>

(* the same with the replayed reply named by (type, channel, state index): constant quantifier *)
(* domains, so that TLC labels the transitions of the dumped state graph with the arguments     *)
ReplayOf(ch, typ, rc, rk) ==
  /\ rk < Len(led[rc])
  /\ Replay(ch, Sig(MerOf(rc), MsgOf(typ, rc, rk), Bf(rc, rk, typ), TRUE))

(* customer::Ready::start *)
Start(ch, a) ==
  LET c == cust[ch]
      r == L!ApplyBoth(Bal(ch, c.k)[1], Bal(ch, c.k)[2], a)
  IN
  /\ c.stage = "ready"
  /\ Len(led[ch]) <= MaxPays
  /\ IF r.ok
     THEN /\ cust' = [cust EXCEPT ![ch].stage = "started"]
          /\ led'  = [led EXCEPT ![ch] = Append(@, <<r.cb, r.mb>>)]
          /\ c2m'  = [c2m EXCEPT ![ch] = [kind |-> "pay", k |-> c.k, amt |-> a, bf |-> NoBf]]
          /\ last' = Step("start", ch, a, "ok")
     ELSE /\ UNCHANGED <<cust, led, c2m>>
          /\ last' = Step("start", ch, a, r.first)
  /\ UNCHANGED <<m2c, vbs, pend, issued, revealed, nonces, wire, closed, spent>>

(* customer::{Inactive,Ready,Started,Locked}::close *)
Close(ch) ==
  /\ Closable(ch)
  /\ closed' = [closed EXCEPT ![ch] = ClosingMsg(ch)]
  /\ cust' = [cust EXCEPT ![ch].stage = "closed"]
  /\ last' = Step("close", ch, "", "ok")
  /\ UNCHANGED <<led, c2m, m2c, vbs, pend, issued, revealed, nonces, wire, spent>>

(* store + load of the customer stage (C20): refines stuttering on the abstract state *)
Restore(ch) ==
  /\ cust[ch].stage \in {"requested", "inactive", "ready", "started", "locked"}
  /\ last' = Step("restore", ch, "", "ok")
  /\ UNCHANGED <<cust, led, c2m, m2c, vbs, pend, issued, revealed, nonces, wire, closed, spent>>

-----------------------------------------------------------------------------
(* Merchant actions.  The proofs of an honest customer are true statements;     *)
(* ideal proof functionality: accept iff the hidden values satisfy the statement *)
(* for the merchant's own verification tuple.                                    *)
Issue(key, typ, ch, k, bf) == Sig(key, MsgOf(typ, ch, k), bf, TRUE)

(* merchant::Config::initialize *)
MInit(ch) ==
  /\ c2m[ch].kind = "establish"
  /\ LET r == Issue(MerOf(ch), "close", ch, 0, Bf(ch, 0, "close")) IN
       /\ m2c' = [m2c EXCEPT ![ch] = r]
       /\ issued' = issued \cup {[key |-> r.key, msg |-> r.msg]}
       /\ wire' = wire \cup {r}
  /\ vbs' = [vbs EXCEPT ![ch] = [has |-> TRUE, k |-> 0]]
  /\ c2m' = [c2m EXCEPT ![ch] = NoMsg]
  /\ last' = Step("minit", ch, "", "ok")
  /\ UNCHANGED <<cust, led, pend, revealed, nonces, closed, spent>>

(* merchant::Config::activate (only after initialize succeeded: usage obligation) *)
MActivate(ch) ==
  /\ vbs[ch].has /\ m2c[ch] = NoSig /\ cust[ch].stage = "inactive"
  /\ LET r == Issue(MerOf(ch), "token", ch, vbs[ch].k, Bf(ch, vbs[ch].k, "token")) IN
       /\ m2c' = [m2c EXCEPT ![ch] = r]
       /\ issued' = issued \cup {[key |-> r.key, msg |-> r.msg]}
       /\ wire' = wire \cup {r}
  /\ vbs' = [vbs EXCEPT ![ch] = NoVbs]
  /\ last' = Step("mactivate", ch, "", "ok")
  /\ UNCHANGED <<cust, led, c2m, pend, revealed, nonces, closed, spent>>

(* merchant::Config::allow_payment; the nonce must be fresh (usage obligation) *)
MAllow(ch) ==
  LET m == c2m[ch] IN
  /\ m.kind = "pay"
  /\ NonceOf(ch, m.k) \notin nonces
  /\ nonces' = nonces \cup {NonceOf(ch, m.k)}
  /\ LET r == Issue(MerOf(ch), "close", ch, m.k + 1, Bf(ch, m.k + 1, "close")) IN
       /\ m2c' = [m2c EXCEPT ![ch] = r]
       /\ issued' = issued \cup {[key |-> r.key, msg |-> r.msg]}
       /\ wire' = wire \cup {r}
  /\ pend' = [pend EXCEPT ![ch] = [has |-> TRUE, k |-> m.k]]
  /\ c2m' = [c2m EXCEPT ![ch] = NoMsg]
  /\ spent' = [spent EXCEPT ![ch] = Append(@, m.k)]
  /\ last' = Step("mallow", ch, m.amt, "ok")
  /\ UNCHANGED <<cust, led, vbs, revealed, closed>>

(* merchant::Unrevoked::complete_payment with candidate (pair of state <<pch,pk>>, bf): *)
(* issues the pay token iff the candidate opens the stored lock commitment, i.e. it is  *)
(* the pair of the OLD state with the blinding factor of THIS payment; otherwise the    *)
(* pending payment is handed back unchanged.                                            *)
Opens(ch, pch, pk, bf) == pend[ch].has /\ pch = ch /\ pk = pend[ch].k /\ bf = Bf(ch, pend[ch].k, "rl")

MCompleteWith(ch, pch, pk, bf, how) ==
  /\ pend[ch].has
  /\ IF Opens(ch, pch, pk, bf)
     THEN /\ LET r == Issue(MerOf(ch), "token", ch, pend[ch].k + 1, Bf(ch, pend[ch].k + 1, "token")) IN
               /\ m2c' = [m2c EXCEPT ![ch] = r]
               /\ issued' = issued \cup {[key |-> r.key, msg |-> r.msg]}
               /\ wire' = wire \cup {r}
          /\ pend' = [pend EXCEPT ![ch] = NoPend]
          /\ last' = Step("mcomplete", ch, how, "ok")
     ELSE /\ UNCHANGED <<m2c, issued, wire, pend>>
          /\ last' = Step("mcomplete", ch, how, "refused")

(* honest completion with the customer's lock message *)
MComplete(ch) ==
  /\ c2m[ch].kind = "lock"
  /\ MCompleteWith(ch, ch, c2m[ch].k, c2m[ch].bf, "honest")
  /\ c2m' = [c2m EXCEPT ![ch] = IF last'.out = "ok" THEN NoMsg ELSE c2m[ch]]
  /\ UNCHANGED <<cust, led, vbs, revealed, nonces, closed, spent>>

(* wrong revocation candidates (C05): pair of the NEW state, pair of another channel, *)
(* right pair with a wrong blinding factor, wrong pair with the right blinding factor *)
WrongRev(ch, kind) ==
  LET k == pend[ch].k IN
  /\ pend[ch].has
  /\ CASE kind = "newstate"  -> MCompleteWith(ch, ch, k + 1, Bf(ch, k, "rl"), kind)
       [] kind = "wrongbf"   -> MCompleteWith(ch, ch, k, Bf(ch, k, "close"), kind)
       [] kind = "otherchan" -> MCompleteWith(ch, 0, k, Bf(0, k, "rl"), kind)
       [] kind = "bothwrong" -> MCompleteWith(ch, ch, k + 1, Bf(ch, k + 1, "rl"), kind)
       \* a valid pair over the old state's SECRET with a later canonical index: another lock, no state's pair
       \* a foreign pair with the blinding factor shifted by the difference of the locks (opens only if h = g)
       [] kind = "shiftedbf"  -> MCompleteWith(ch, 0, k, <<"shifted", ch, k>>, kind)
       [] kind = "laterindex" -> MCompleteWith(ch, ch, 0 - 1, Bf(ch, k, "rl"), kind)
       [] OTHER -> FALSE
  /\ UNCHANGED <<cust, led, c2m, vbs, revealed, nonces, closed, spent>>

-----------------------------------------------------------------------------
(* A malicious customer against the honest merchant.  The merchant's verdict on a proof is the  *)
(* verdict of the proof game: a true statement is accepted (completeness); a false one is       *)
(* accepted only if the proof system is unsound for the observed transcript (ProofSound = FALSE).*)
(* These actions connect ProofGame.tla to the protocol-level invariants IssuedMatchesLedger and *)
(* NoDoubleSpend: with ProofSound = FALSE, TLC exhibits the consequences of F1 / F2 at protocol  *)
(* level (MC_ZkAbacus_adv_unsound.cfg must fail).                                                *)
AdvStateMsg(ch, i, cb, mb) == <<ch, NonceOf(ch, i), LockOf(ch, i), cb, mb>>
AdvCloseMsg(ch, i, cb, mb) == <<ch, CloseTag, LockOf(ch, i), cb, mb>>

(* establish: agreed balances `bal`, hidden balances `hid` *)
AdvInit(ch, bal, hid) ==
  /\ ch \in AdvChannels /\ cust[ch].stage = "none"
  /\ (hid = bal \/ ~ProofSound)
  /\ cust' = [cust EXCEPT ![ch].stage = "adv"]
  /\ led' = [led EXCEPT ![ch] = <<bal>>]
  /\ issued' = issued \cup {[key |-> MerOf(ch), msg |-> AdvCloseMsg(ch, 0, hid[1], hid[2])],
                            [key |-> MerOf(ch), msg |-> AdvStateMsg(ch, 0, hid[1], hid[2])]}
  /\ last' = Step("advinit", ch, hid, IF hid = bal THEN "honest" ELSE "forged")
  /\ UNCHANGED <<c2m, m2c, vbs, pend, revealed, nonces, wire, closed, spent>>

(* pay with the token of state i under a claimed nonce: the real one (fresh in the database) or  *)
(* a made-up one; the merchant issues the closing signature of the successor state               *)
AdvPay(ch, i, fake) ==
  /\ ch \in AdvChannels /\ cust[ch].stage = "adv"
  /\ i = Len(led[ch]) - 1 \/ fake                                      \* the newest token, or any token again
  /\ i \in 0..(Len(led[ch]) - 1)
  /\ Len(led[ch]) <= MaxPays
  /\ IF fake THEN ~ProofSound /\ NonceOf(ch, i) \in nonces           \* spent token under a made-up nonce
             ELSE NonceOf(ch, i) \notin nonces
  /\ nonces' = nonces \cup {IF fake THEN <<"fake", ch, Len(led[ch])>> ELSE NonceOf(ch, i)}
  /\ led' = [led EXCEPT ![ch] = Append(@, Bal(ch, i))]                  \* amount 0: balances carried over
  /\ issued' = issued \cup {[key |-> MerOf(ch), msg |-> AdvCloseMsg(ch, Len(led[ch]), Bal(ch, i)[1], Bal(ch, i)[2])],
                            [key |-> MerOf(ch), msg |-> AdvStateMsg(ch, Len(led[ch]), Bal(ch, i)[1], Bal(ch, i)[2])]}
  /\ revealed' = revealed \cup {LockOf(ch, i)}                          \* the adversary does reveal the old pair
  /\ spent' = [spent EXCEPT ![ch] = Append(@, i)]
  /\ last' = Step("advpay", ch, i, IF fake THEN "doublespend" ELSE "honest")
  /\ UNCHANGED <<cust, c2m, m2c, vbs, pend, wire, closed>>

-----------------------------------------------------------------------------
Next ==
  \E ch \in Channels :
    \/ \E bal \in InitBals : Request(ch, bal)
    \/ Deliver(ch)
    \/ \E f \in FaultKinds : Fault(ch, f)
    \/ \E typ \in {"close", "token"}, rc \in Channels, rk \in 0..(MaxPays + 1) : ReplayOf(ch, typ, rc, rk)
    \/ \E a \in Amounts : Start(ch, a)
    \/ Close(ch)
    \/ Restore(ch)
    \/ MInit(ch) \/ MActivate(ch) \/ MAllow(ch) \/ MComplete(ch)
    \/ \E kind \in RevKinds : WrongRev(ch, kind)
    \/ \E bal \in InitBals, hid \in InitBals : AdvInit(ch, bal, hid)
    \/ \E i \in 0..MaxPays, fake \in BOOLEAN : AdvPay(ch, i, fake)

HonestNext ==
  \E ch \in Channels :
    \/ \E bal \in InitBals : Request(ch, bal)
    \/ Deliver(ch)
    \/ \E a \in Amounts : Start(ch, a)
    \/ MInit(ch) \/ MActivate(ch) \/ MAllow(ch) \/ MComplete(ch)

Spec     == Init /\ [][Next]_vars
FairSpec == Init /\ [][HonestNext]_vars /\ WF_vars(HonestNext)

-----------------------------------------------------------------------------
(* Invariants *)

TypeOK ==
  /\ \A ch \in Channels : cust[ch].stage \in Stages /\ cust[ch].k \in 0..(MaxPays + 1)

(* C03: at every closable point the closing message is accepted by the merchant's close *)
(* check, carries the ledger's balances for that stage, and its lock is unrevoked.        *)
CanClose ==
  \A ch \in Channels : Closable(ch) =>
      /\ MerchantAcceptsClose(ch)
      /\ [key |-> MerOf(ch), msg |-> CloseMsg(ch, CloseIdx(ch))] \in issued
      /\ LockOf(ch, CloseIdx(ch)) \notin revealed
      /\ ClosingMsg(ch).cb = Bal(ch, CloseIdx(ch))[1]
      /\ ClosingMsg(ch).mb = Bal(ch, CloseIdx(ch))[2]

(* stage <-> ledger: started is the only stage with a state beyond the current one *)
LedgerShape ==
  \A ch \in Channels :
     LET c == cust[ch] IN
       /\ c.stage \in {"requested", "inactive", "ready", "locked"} => Len(led[ch]) = c.k + 1
       /\ c.stage = "started" => Len(led[ch]) = c.k + 2
       /\ c.stage = "none" => led[ch] = <<>>

(* C04: balances stay in range and their sum is conserved along the ledger *)
InRange(x) == NLeq(NZero, x) /\ NLeq(x, MaxBal)
Conservation ==
  \A ch \in Channels : \A i \in 1..Len(led[ch]) :
     /\ InRange(led[ch][i][1]) /\ InRange(led[ch][i][2])
     /\ NAdd(led[ch][i][1], led[ch][i][2]) = NAdd(led[ch][1][1], led[ch][1][2])

(* a pay token / closing signature held by the customer is always a merchant signature *)
(* on exactly its current state (what `Ready` relies on to start the next payment)      *)
HeldSigsValid ==
  \A ch \in Channels :
     LET c == cust[ch] IN
       /\ c.stage \in {"inactive", "ready", "started", "locked"} =>
             Verify(c.csig, MerOf(ch), CloseMsg(ch, c.k))
       /\ c.stage \in {"ready", "started"} => Verify(c.tok, MerOf(ch), StateMsg(ch, c.k))

(* C18: a state message and a close-state message never coincide (second slot) *)
TagSeparation ==
  \A s1 \in issued, s2 \in issued :
     (s1.msg[2] = CloseTag /\ s2.msg[2] # CloseTag) => s1.msg # s2.msg

(* C01/C02 at protocol level: everything a merchant key ever signed is a state or close  *)
(* state of the ideal ledger                                                             *)
IssuedMatchesLedger ==
  \A s \in issued : \E ch \in Channels : \E k \in 0..(Len(led[ch]) - 1) :
      s.key = MerOf(ch) /\ (s.msg = StateMsg(ch, k) \/ s.msg = CloseMsg(ch, k))

(* a token for state k+1 exists only if the lock of state k was revealed (C05) *)
TokenOnlyAfterRevocation ==
  \A ch \in Channels : \A k \in 1..(Len(led[ch]) - 1) :
      [key |-> MerOf(ch), msg |-> StateMsg(ch, k)] \in issued => LockOf(ch, k - 1) \in revealed

(* a closing message is never on a revoked state, so the merchant holding every revealed *)
(* secret can never punish an honest customer                                             *)
ClosedOnUnrevoked ==
  \A ch \in Channels : closed[ch].has =>
      /\ LockOf(ch, closed[ch].k) \notin revealed
      /\ closed[ch].cb = Bal(ch, closed[ch].k)[1] /\ closed[ch].mb = Bal(ch, closed[ch].k)[2]

(* merchant-side exposure: at any time at most two closing signatures per channel are on        *)
(* unrevoked states, and they are on consecutive states (the one being replaced and its        *)
(* successor) - every older closing signature can be punished with a revealed secret           *)
UnrevokedClosable(ch) ==
  {i \in 0..(Len(led[ch]) - 1) : [key |-> MerOf(ch), msg |-> CloseMsg(ch, i)] \in issued /\ LockOf(ch, i) \notin revealed}
MerchantExposureBounded ==
  \A ch \in Channels : \A i, j \in UnrevokedClosable(ch) : i - j \in {-1, 0, 1}

(* one pay token is never accepted twice (C02 at protocol level; relies on the nonce database AND *)
(* on the pay proof binding the token to the revealed nonce)                                        *)
NoDoubleSpend ==
  \A ch \in Channels : \A i, j \in 1..Len(spent[ch]) : i # j => spent[ch][i] # spent[ch][j]

-----------------------------------------------------------------------------
(* Dispute outcomes at ledger level.  The arbiter (on-chain contract, outside the library) pays a  *)
(* presented closing signature on state i of channel ch as <<cb_i, mb_i>>, unless the merchant     *)
(* answers with the revocation secret of state i (its lock was disclosed in a lock message): then  *)
(* the merchant takes the whole channel.  What each party can obtain from every reachable joint    *)
(* state - in particular when the other party stops answering at any step - follows.               *)
Total(ch)       == NAdd(led[ch][1][1], led[ch][1][2])
Outcome(ch, i)  == IF LockOf(ch, i) \in revealed THEN <<NZero, Total(ch)>> ELSE Bal(ch, i)
ClosingSigs(ch) == {i \in 0..(Len(led[ch]) - 1) : [key |-> MerOf(ch), msg |-> CloseMsg(ch, i)] \in issued}
(* states whose pay token exists: the merchant has delivered for every payment up to them *)
Served(ch)      == {k \in 0..(Len(led[ch]) - 1) : [key |-> MerOf(ch), msg |-> StateMsg(ch, k)] \in issued}

(* a closing signature never runs ahead of the served states by more than the payment in flight *)
DisputeWindow ==
  \A ch \in Channels : \A i \in ClosingSigs(ch) : i = 0 \/ (i - 1) \in Served(ch)
(* whoever (honest or malicious customer) closes on a state older than a served one loses everything *)
DisputePunishOld ==
  \A ch \in Channels : \A i \in ClosingSigs(ch), k \in Served(ch) :
      i < k => Outcome(ch, i) = <<NZero, Total(ch)>>
(* every outcome distributes exactly the channel total *)
DisputeOutcomeConserves ==
  \A ch \in Channels : \A i \in ClosingSigs(ch) :
      NAdd(Outcome(ch, i)[1], Outcome(ch, i)[2]) = Total(ch)
(* hence the merchant's payoff from ANY closing signature in existence is its balance in the newest *)
(* served state, in that state's successor (payment in flight), or the whole channel                 *)
MerchantPayoffBound ==
  \A ch \in Channels : \A i \in ClosingSigs(ch) :
      \/ Served(ch) = {}
      \/ Outcome(ch, i) = <<NZero, Total(ch)>>
      \/ \E s \in Served(ch) : (\A k \in Served(ch) : k <= s) /\ i \in {s, s + 1}
(* the honest customer, at every point where the merchant may stop answering, obtains the balances  *)
(* of its newest state - or, while a payment is only started, of the state before it - and is never *)
(* punishable; a closing message once published stays unpunishable                                   *)
DisputeCustomerSafe ==
  \A ch \in Channels \ AdvChannels :
     /\ Closable(ch) =>
           /\ CloseIdx(ch) \in ClosingSigs(ch)
           /\ Outcome(ch, CloseIdx(ch)) = Bal(ch, CloseIdx(ch))
           /\ CloseIdx(ch) = Len(led[ch]) - (IF cust[ch].stage = "started" THEN 2 ELSE 1)
     /\ closed[ch].has => Outcome(ch, closed[ch].k) = <<closed[ch].cb, closed[ch].mb>>

(* Action properties *)
(* the customer's dispute outcome changes only by steps the customer itself takes and accepts:      *)
(* a start it makes, or a reply it accepts; never by a merchant step, a refused reply or a restore  *)
OutcomeOnlyByCustomer ==
  [][\A ch \in Channels \ AdvChannels :
        (Closable(ch) /\ cust'[ch].stage \in {"inactive", "ready", "started", "locked"}
           /\ led'[ch][cust'[ch].k + 1] # led[ch][cust[ch].k + 1])
        => (last'.act = "receive" /\ last'.out = "ok" /\ last'.ch = ch /\ cust[ch].stage = "started")]_vars
(* C03: a refused reply leaves the customer state unchanged; a revocation secret is   *)
(* released only in the step that accepts a valid closing signature on the successor  *)
RefusedIsInert ==
  [][last'.out = "refused" => cust' = cust /\ revealed' = revealed /\ led' = led /\ pend' = pend]_vars
ReleaseOnlyOnAccept ==
  [][(revealed' # revealed /\ last'.act \notin {"init", "advpay"}) =>   \* ("init" = reset between traces; a malicious customer reveals what it likes)
        \E ch \in Channels : /\ cust[ch].stage = "started" /\ cust'[ch].stage = "locked"
                             /\ last'.act = "receive" /\ last'.out = "ok"
                             /\ Verify(cust'[ch].csig, MerOf(ch), CloseMsg(ch, cust'[ch].k))
                             /\ revealed' = revealed \cup {LockOf(ch, cust[ch].k)}]_vars
(* C04: a refused start produces no message and changes nothing *)
RefusedStartInert ==
  [][(last'.act = "start" /\ last'.out # "ok") => cust' = cust /\ led' = led /\ c2m' = c2m]_vars
(* C05: complete_payment issues a token iff the candidate opens the commitment *)
TokenIffOpens ==
  [][last'.act = "mcomplete" => (last'.out = "ok" <=> wire' # wire) /\ (last'.out = "refused" => pend' = pend)]_vars
(* C20: restore is a stuttering step of the abstract state *)
RestoreStutters ==
  [][last'.act = "restore" => cust' = cust /\ led' = led /\ revealed' = revealed]_vars
(* C06: a reply is accepted only at the reply point it was issued for *)
ReplayRefused ==
  [][(last'.act = "receive" /\ last'.arg = "replay") => last'.out = "refused"]_vars
FaultRefused ==
  [][(last'.act = "receive" /\ last'.arg \notin {"honest", "replay"}) => last'.out = "refused"]_vars
HonestAccepted ==
  [][(last'.act = "receive" /\ last'.arg = "honest") => last'.out = "ok"]_vars

(* Liveness (fault-free, fair): every started payment is eventually settled *)
Settled == \A ch \in Channels : cust[ch].stage \notin {"started", "locked", "requested", "inactive"}
EventuallySettled == []<>Settled
=============================================================================
