SPECIFICATION Spec
CONSTANTS U = 4
          L = 3
          Slack = 4
INVARIANTS ProverRoundTrip ProverRefusesNegatives AcceptedImpliesInRange MaxForgeable MaxReached
CHECK_DEADLOCK FALSE
