SPECIFICATION XSpec
CONSTANTS
  MCMaxBal = 7
  AmtRange = 7
  MaxPays = 3
  MCChannels = {1, 2}
  Channels <- MCChannels
  MerOf <- MCMerOf
  InitBals <- MCInitBals
  Amounts <- MCAmounts
  FaultKinds <- MCFaults
  AdvChannels <- MCNone
  ProofSound = TRUE
  RevKinds <- MCRevKinds
  NAdd <- MCAdd
  NSub <- MCSub
  NLeq <- MCLeq
  NZero = 0
  MaxBal = 7
  XDepth = 40
  UMax = 15
INVARIANTS Emit CanClose
CHECK_DEADLOCK FALSE
