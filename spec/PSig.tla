-------------------------------- MODULE PSig --------------------------------
(***************************************************************************)
(* Pointcheval-Sanders signatures and blind signatures                     *)
(* (zkchannels-crypto/src/pointcheval_sanders.rs) in the EXPONENT instance:*)
(* every group element is represented by its discrete logarithm in Z_P, so *)
(* the pairing equation e(s1, X~ * prod Y~i^mi) = e(s2, g~) is the         *)
(* polynomial identity  s1 * (x + SUM yi*mi) = s2.                         *)
(*                                                                         *)
(* One signature object is taken through chains of the public operations   *)
(*   Sign, Randomize (Signature::randomize / BlindedSignature::randomize), *)
(*   Blind (the blinding half of blind_and_randomize), BlindSign (on a     *)
(*   verified blinded message), Unblind.                                   *)
(* Next to the algebra the state carries a PROVENANCE calculus             *)
(*   deg  - some randomiser / signing exponent was 0 (all-identity sig)    *)
(*   net  - net blinding: SUM of blinding factors applied minus removed    *)
(* and TLC checks, for every key, message, randomiser (including 0) and    *)
(* chain, that verification on message m' holds IFF ~deg /\ net = 0 /\     *)
(* m' = m (for single-coordinate changes of m').  Trace_PSig.tla then uses *)
(* the provenance calculus alone to predict the verdict of the real code.  *)
(***************************************************************************)
EXTENDS Integers, Sequences, FiniteSets, TLC
CONSTANTS P, N, MaxOps

Zp == 0..(P - 1)
NZ == 1..(P - 1)
Add(a, b) == (a + b) % P
Sub(a, b) == (a - b + P) % P
Mul(a, b) == (a * b) % P
RECURSIVE Dot(_, _, _)
Dot(y, m, i) == IF i > N THEN 0 ELSE Add(Mul(y[i], m[i]), Dot(y, m, i + 1))

VARIABLES x, y,       \* secret key (non-zero scalars: KeyPair::new retries zeros)
          m,          \* the signed message tuple
          s1, s2,     \* the signature (discrete logs)
          deg, net,   \* provenance
          ops         \* number of operations applied
vars == <<x, y, m, s1, s2, deg, net, ops>>

(* Signature::verify: sigma1 is not the identity and the pairing equation holds *)
Verify(mm) == s1 # 0 /\ Mul(s1, Add(x, Dot(y, mm, 1))) = s2
PairingOnly(mm) == Mul(s1, Add(x, Dot(y, mm, 1))) = s2

Init == /\ x \in NZ /\ y \in [1..N -> NZ] /\ m \in [1..N -> Zp]
        /\ \E h \in Zp :                   \* Signature::new (h = 0 only through chosen randomness)
              /\ s1 = h /\ s2 = Mul(h, Add(x, Dot(y, m, 1)))
              /\ deg = (h = 0)
        /\ net = 0 /\ ops = 0

Randomize(r) == /\ s1' = Mul(r, s1) /\ s2' = Mul(r, s2)
                /\ deg' = (deg \/ r = 0) /\ UNCHANGED net
Blind(bf)    == /\ s2' = Add(s2, Mul(s1, bf)) /\ UNCHANGED <<s1, deg>>
                /\ net' = Add(net, bf)
Unblind(bf)  == /\ s2' = Sub(s2, Mul(s1, bf)) /\ UNCHANGED <<s1, deg>>
                /\ net' = Sub(net, bf)
(* BlindedSignature::new on the commitment C = bf + SUM yi*mi with signing exponent u *)
BlindSign(bf, u) == /\ s1' = u /\ s2' = Mul(u, Add(x, Add(Dot(y, m, 1), bf)))
                    /\ deg' = (u = 0) /\ net' = bf

Next == /\ ops < MaxOps /\ ops' = ops + 1 /\ UNCHANGED <<x, y, m>>
        /\ \/ \E r \in Zp : Randomize(r)
           \/ \E bf \in Zp : Blind(bf)
           \/ \E bf \in Zp : Unblind(bf)
           \/ \E bf \in Zp, u \in Zp : BlindSign(bf, u)
Spec == Init /\ [][Next]_vars

-----------------------------------------------------------------------------
Valid == ~deg /\ net = 0
(* verification accepts exactly the PS relation ... *)
VerifyExact == Verify(m) <=> Valid
(* ... a valid signature verifies on no message differing in a single coordinate (y_i # 0) ... *)
SingleChangeRejects ==
  Valid => \A i \in 1..N : \A d \in NZ : ~Verify([m EXCEPT ![i] = Add(@, d)])
(* ... the all-identity signature satisfies the pairing equation for EVERY message but never verifies *)
DegenerateNeverVerifies == deg => (s1 = 0 /\ s2 = 0 /\ ~Verify(m) /\ \A mm \in [1..N -> Zp] : PairingOnly(mm))
(* unblinding with a factor other than the net blinding never verifies (s1 # 0) *)
WrongFactorRejects == (~deg /\ net # 0) => ~Verify(m)
=============================================================================
