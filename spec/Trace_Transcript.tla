--------------------------- MODULE Trace_Transcript ---------------------------
(* Validates transcript observations of the real code (harness `transcript`, `tuple`):        *)
(*  atom:    one atom of the wire form of a ChallengeInput type / composite proof was replaced *)
(*           by another valid atom: in_transcript, changed (challenge), role                   *)
(*  hash:    challenge = SHA3-256(recorded transcript) reduced as finish() does                *)
(*  pair:    builder challenge = proof challenge (prover = verifier for the composite proofs)  *)
(*  ctxbyte: one byte of the context input flipped                                             *)
(*  tuple:   an honest proof verified under a tuple differing in one component                 *)
(*  closesub: a closing message with one field replaced                                        *)
EXTENDS Integers, Sequences, Json, IOUtils, TLC
Rec == ndJsonDeserialize(IOEnv.TRACE)
VARIABLE l
r == Rec[l]
IsEv(e) == l <= Len(Rec) /\ Rec[l].ev = e /\ l' = l + 1

(* (in_transcript - the atom's bytes occur verbatim in the recorded transcript - and challenge_is_sha3 are logged *)
(*  for information; the property demands only that the challenge changes)                                       *)
TAtom == IsEv("atom") /\ (r.role = "nonresponse" => r.decodes /\ r.changed)
THash == IsEv("hash") /\ r.transcript_len > 0 /\ r.with_eq_consume     \* with / with_bytes are the chainable variants of consume / consume_bytes
TPair == IsEv("pair") /\ r.builder_eq_proof /\ r.verifies
TCtx  == IsEv("ctxbyte") /\ r.changed /\ ~r.accepted
TBytesExt == IsEv("bytesext") /\ r.changed                                  \* a byte input and its zero-extension differ
TCtxSet == IsEv("ctxset") /\ r.distinct_challenges = r.contexts      \* no two contexts are identified
(* C06: accepted under the original tuple only; a substituted component that is not part of an  *)
(* equation must at least change the challenge (that is the only thing that can reject it)      *)
TTuple == /\ IsEv("tuple")
          /\ r.accepted = (r.component = "none")
          /\ (r.component # "none" /\ ~r.in_equation) => r.challenge_changed
TCloseSub == IsEv("closesub") /\ r.accepted = r.same_value
TNext == TAtom \/ THash \/ TPair \/ TCtx \/ TCtxSet \/ TBytesExt \/ TTuple \/ TCloseSub
TSpec == l = 1 /\ [][TNext]_l
Accepted ==
  LET n == TLCGet("stats").diameter - 1 IN
  IF n = Len(Rec) THEN TRUE
  ELSE /\ PrintT(<<"TRACE_MISMATCH", "matched", n, "of", Len(Rec), "next_event", ToJson(Rec[n + 1])>>)
       /\ FALSE
=============================================================================
