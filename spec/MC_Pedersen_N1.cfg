SPECIFICATION Spec
CONSTANTS P = 5
          N = 1
INVARIANTS AcceptsOriginal Exact SinglePerturbationRejects Homomorphic
CHECK_DEADLOCK FALSE
