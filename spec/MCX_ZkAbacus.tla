---------------------------- MODULE MCX_ZkAbacus ----------------------------
(* Behaviour export.  Run with `tlc -simulate -workers 1 -depth XDepth+1`: a history variable *)
(* collects the steps of the walk and every state at the final level prints its complete     *)
(* history as one JSON line.  (TLC evaluates invariants on all candidate successors, so       *)
(* several siblings sharing a prefix may be printed; each line is a behaviour of the spec.)   *)
(* lib/protodrv.py turns the lines into action scripts for the harness.                       *)
EXTENDS MC_ZkAbacus
CONSTANT XDepth
VARIABLE hist
XInit       == Init /\ hist = <<>>
XSpec       == XInit /\ [][Next /\ hist' = Append(hist, last')]_<<vars, hist>>
XHonestSpec == XInit /\ [][HonestNext /\ hist' = Append(hist, last')]_<<vars, hist>>
Emit == (Len(hist) = XDepth) => PrintT(<<"WALK", ToJson(hist)>>)
=============================================================================
