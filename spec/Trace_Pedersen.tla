---------------------------- MODULE Trace_Pedersen ----------------------------
(* Validates Pedersen commitment executions (harness `pedersen`) against Pedersen.tla:       *)
(* the element equals h^r * prod g_i^m_i accumulated independently; verify_opening returns    *)
(* TRUE iff the recomputed commitment equals the given one; the original opening is accepted, *)
(* every single-coordinate / blinding-factor perturbation is rejected; commitments add.      *)
EXTENDS Integers, Sequences, Json, IOUtils, TLC
Rec == ndJsonDeserialize(IOEnv.TRACE)
VARIABLE l
r == Rec[l]
IsEv(e) == l <= Len(Rec) /\ Rec[l].ev = e /\ l' = l + 1
TPed == /\ IsEv("pedersen")
        /\ r.elem_eq_independent
        /\ r.verify_original
        /\ r.additive
        /\ \A i \in 1..Len(r.perturbed) :
              /\ r.perturbed[i].verdict = r.perturbed[i].recomputed_eq       \* exactness
              /\ ~r.perturbed[i].verdict                                      \* single perturbations never open
        /\ \A i \in 1..Len(r.combined) : r.combined[i].verdict = r.combined[i].recomputed_eq   \* exactness for combined moves
        /\ r.params = "generated" => /\ r.generators_distinct                              \* fresh generators: h, g_1 .. g_N pairwise different
                                     /\ \A i \in 1..Len(r.combined) : ~r.combined[i].verdict
        /\ r.other.verdict = ~r.other.differs
(* a parameter object has no memory: what it commits with is what it holds now *)
TLife == /\ IsEv("pedersen_lifecycle")
         /\ r.before_ok /\ r.after_ok /\ r.equal_to_source
         /\ ~r.old_commitment_opens_under_new_generators
TNext == TPed \/ TLife
TSpec == l = 1 /\ [][TNext]_l
Accepted ==
  LET n == TLCGet("stats").diameter - 1 IN
  IF n = Len(Rec) THEN TRUE
  ELSE /\ PrintT(<<"TRACE_MISMATCH", "matched", n, "of", Len(Rec), "next_event", ToJson(Rec[n + 1])>>)
       /\ FALSE
=============================================================================
