------------------------------- MODULE Pedersen -------------------------------
(***************************************************************************)
(* Pedersen commitments (zkchannels-crypto/src/pedersen.rs) in the         *)
(* exponent instance: generators h, g_1..g_N are non-zero elements of Z_P  *)
(* (the decoders and PedersenParameters::new exclude the identity), and    *)
(*   Commit(m, r) = h*r + SUM g_i*m_i.                                      *)
(* TLC checks for every parameter set, message, blinding factor:           *)
(* verify_opening is exact, rejects every single-coordinate / blinding     *)
(* perturbation, and commitments add homomorphically.                      *)
(***************************************************************************)
EXTENDS Integers, Sequences, FiniteSets, TLC
CONSTANTS P, N
Zp == 0..(P - 1)
NZ == 1..(P - 1)
Add(a, b) == (a + b) % P
Mul(a, b) == (a * b) % P
RECURSIVE Dot(_, _, _)
Dot(g, m, i) == IF i > N THEN 0 ELSE Add(Mul(g[i], m[i]), Dot(g, m, i + 1))
Commit(h, g, m, r) == Add(Mul(h, r), Dot(g, m, 1))
VerifyOpening(c, h, g, m, r) == Commit(h, g, m, r) = c

VARIABLES h, g, m, r, m2, r2
vars == <<h, g, m, r, m2, r2>>
Init == /\ h \in NZ /\ g \in [1..N -> NZ]
        /\ m \in [1..N -> Zp] /\ r \in Zp /\ m2 \in [1..N -> Zp] /\ r2 \in Zp
Next == UNCHANGED vars
Spec == Init /\ [][Next]_vars

AcceptsOriginal == VerifyOpening(Commit(h, g, m, r), h, g, m, r)
Exact == VerifyOpening(Commit(h, g, m, r), h, g, m2, r2) <=> Commit(h, g, m2, r2) = Commit(h, g, m, r)
SinglePerturbationRejects ==
  /\ \A i \in 1..N : \A d \in NZ : ~VerifyOpening(Commit(h, g, m, r), h, g, [m EXCEPT ![i] = Add(@, d)], r)
  /\ \A d \in NZ : ~VerifyOpening(Commit(h, g, m, r), h, g, m, Add(r, d))
Homomorphic == Add(Commit(h, g, m, r), Commit(h, g, m2, r2)) = Commit(h, g, [i \in 1..N |-> Add(m[i], m2[i])], Add(r, r2))
=============================================================================
