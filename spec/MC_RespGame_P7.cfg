SPECIFICATION Spec
CONSTANTS P = 7
          BATCH = FALSE
INVARIANTS ForcedResponse Sound Complete
CHECK_DEADLOCK FALSE
