SPECIFICATION Spec
CONSTANTS P = 3
          N = 3
INVARIANTS AcceptsOriginal Exact SinglePerturbationRejects Homomorphic
CHECK_DEADLOCK FALSE
