------------------------------ MODULE DigitBatch ------------------------------
(***************************************************************************)
(* The pairing level of a range constraint (range.rs                       *)
(* verify_range_constraint_digits / signature.rs                           *)
(* verify_knowledge_of_signature): every digit proof j carries a blinded   *)
(* signature (s1_j, s2_j) and a commitment C_j and is accepted iff         *)
(*        s1_j # 1   and   e(s1_j, X~ * C_j) = e(s2_j, g~).                *)
(* In the algebraic group model the prover forms s1_j, s2_j from the       *)
(* public G1 elements with known coefficients, and - the signing secret x  *)
(* being unknown to it - the ERROR of the pairing equation of digit j is a *)
(* polynomial  alpha_j * x + beta_j  whose coefficients the prover knows:  *)
(*   - a digit proof built on a published digit signature (a signature     *)
(*     valid under the range key on that digit: PS axiom A2) has error 0;  *)
(*   - a forged one (s1_j = g^rho, rho # 0 because s1_j # 1) has           *)
(*     alpha_j = rho # 0, so its equation is false whatever beta_j is.     *)
(* The verifier demands error 0 for EVERY digit.  With BATCH = TRUE (spec  *)
(* mutant: one multi-pairing over the unweighted product of all digit     *)
(* equations) it demands only that the SUM of the errors is the zero       *)
(* polynomial - and two cooperating forged digits (rho, -rho) pass.        *)
(* TLC checks  Accepted => every digit is backed by a published signature  *)
(* (hence lies in 0..U-1), for all choices of the prover.                  *)
(***************************************************************************)
EXTENDS Integers, FiniteSets, TLC
CONSTANTS P, L, BATCH
Zp == 0..(P - 1)
VARIABLES signed,   \* [1..L -> BOOLEAN]  digit proof built on a published signature for its digit
          alpha,    \* [1..L -> Zp]       x-coefficient of the pairing error (= dlog of s1_j for a forged digit)
          beta      \* [1..L -> Zp]       constant coefficient of the pairing error
vars == <<signed, alpha, beta>>
Init == /\ signed \in [1..L -> BOOLEAN]
        /\ alpha \in [1..L -> Zp] /\ beta \in [1..L -> Zp]
        /\ \A j \in 1..L : IF signed[j] THEN alpha[j] = 0 /\ beta[j] = 0      \* valid signature: the equation holds
                                        ELSE alpha[j] # 0                    \* s1_j # 1 (is_well_formed) and x unknown
Next == UNCHANGED vars
Spec == Init /\ [][Next]_vars

RECURSIVE Sum(_, _)
Sum(f, j) == IF j > L THEN 0 ELSE (f[j] + Sum(f, j + 1)) % P
DigitOk(j) == alpha[j] = 0 /\ beta[j] = 0
Accepted == IF BATCH THEN Sum(alpha, 1) = 0 /\ Sum(beta, 1) = 0 ELSE \A j \in 1..L : DigitOk(j)
AcceptedOnlySigned == Accepted => \A j \in 1..L : signed[j]
HonestAccepted == (\A j \in 1..L : signed[j]) => Accepted
=============================================================================
