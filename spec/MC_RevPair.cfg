SPECIFICATION Spec
CONSTANTS MaxIdx = 4
INVARIANTS GeneratedWellFormed FirstCanonical DecodedWellFormed DecodeExact
PROPERTIES Terminates
CHECK_DEADLOCK FALSE
