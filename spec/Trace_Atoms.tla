------------------------------ MODULE Trace_Atoms ------------------------------
(***************************************************************************)
(* C14 on real executions.  The harness interns every group element /      *)
(* scalar (32-, 48-, 96-byte atom) of every message of a protocol history  *)
(* - both directions - and of the public parameters, and lists, for every  *)
(* customer -> merchant message, the secret scalars the customer state     *)
(* held when it was sent (blinding factors, nonces, revocation secrets and *)
(* locks, scalar encodings of the balances) and the ones the step reveals  *)
(* by design (`allowed`: the old nonce at start; the old pair and its      *)
(* blinding factor at lock; lock, channel id and balances at establishment *)
(* / closing).  The specification keeps the merchant's view `seen`:        *)
(*   NoReuse:      no atom of a customer message was seen before           *)
(*                 (earlier message in either direction, or parameters)    *)
(*                 unless the step reveals it by design                    *)
(*   NoSecretLeak: no secret the customer holds occurs in a message unless *)
(*                 the step reveals it by design                           *)
(***************************************************************************)
EXTENDS Integers, Sequences, FiniteSets, Json, IOUtils, TLC
Rec == ndJsonDeserialize(IOEnv.TRACE)
VARIABLES l, seen
r == Rec[l]
IsEv(e) == l <= Len(Rec) /\ Rec[l].ev = e /\ l' = l + 1
ToSet(sq) == {sq[i] : i \in 1..Len(sq)}

TReset == IsEv("reset") /\ seen' = {}
TParams == IsEv("params") /\ seen' = seen \cup ToSet(r.atoms)
TMsg == /\ IsEv("msg")
        /\ LET A == ToSet(r.atoms)  S == ToSet(r.secrets)  OK == ToSet(r.allowed)  Known == ToSet(r.known) IN
             /\ r.dir = "c2m" => /\ (A \cap seen) \subseteq Known         \* NoReuse: only the channel id and balances (establish, close)
                                 /\ (A \cap S) \subseteq OK               \* NoSecretLeak: only what the message discloses by design
             /\ seen' = seen \cup A
TNext == TReset \/ TParams \/ TMsg
TSpec == l = 1 /\ seen = {} /\ [][TNext]_<<l, seen>>
Accepted ==
  LET n == TLCGet("stats").diameter - 1 IN
  IF n = Len(Rec) THEN TRUE
  ELSE /\ PrintT(<<"TRACE_MISMATCH", "matched", n, "of", Len(Rec), "next_event", "(see trace file)">>)
       /\ FALSE
=============================================================================
