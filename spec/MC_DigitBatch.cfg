SPECIFICATION Spec
CONSTANTS P = 5
          L = 3
          BATCH = FALSE
INVARIANTS AcceptedOnlySigned HonestAccepted
CHECK_DEADLOCK FALSE
