-------------------------------- MODULE RangeC --------------------------------
(***************************************************************************)
(* Range constraints (zkchannels-crypto/src/proofs/range.rs): a value is   *)
(* written in L digits of radix U (real code: U = 128, L = 9, U^L = 2^63); *)
(* each digit is proven to carry a signature under the range key, which    *)
(* signed exactly the digits 0..U-1; the verifier checks every digit proof *)
(* and that SUM U^j * z_j equals the response scalar of the linked slot.   *)
(***************************************************************************)
EXTENDS Integers, Sequences, FiniteSets, TLC
CONSTANTS U, L, Slack            \* Slack: how far outside [0, U^L) inputs are explored
RECURSIVE Pow(_, _)
Pow(b, e) == IF e = 0 THEN 1 ELSE b * Pow(b, e - 1)
Top == Pow(U, L)
DigitsOf(v) == [j \in 1..L |-> (v \div Pow(U, j - 1)) % U]
RECURSIVE WSum(_, _)
WSum(d, j) == IF j > L THEN 0 ELSE d[j] * Pow(U, j - 1) + WSum(d, j + 1)

VARIABLES v,        \* prover input (a signed machine integer)
          ds,       \* an attacker's digit vector: which published signature is used per position
          claim     \* the digit value claimed per position
vars == <<v, ds, claim>>
Init == /\ v \in (-Slack)..(Top - 1)
        /\ ds \in [1..L -> 0..(U - 1)]
        /\ claim \in [1..L -> (-1)..U]
Next == UNCHANGED vars
Spec == Init /\ [][Next]_vars

(* RangeConstraintBuilder::generate_constraint_commitments *)
ProverOk(val) == val >= 0
ProverRoundTrip == ProverOk(v) => WSum(DigitsOf(v), 1) = v /\ \A j \in 1..L : DigitsOf(v)[j] \in 0..(U - 1)
ProverRefusesNegatives == v < 0 => ~ProverOk(v)
(* a digit proof verifies iff the claimed digit is the one the used signature was issued on (A2) *)
DigitProofOk(j) == claim[j] = ds[j]
AttackerAccepted == \A j \in 1..L : DigitProofOk(j)
(* whatever combination of published signatures is used, the linked value is in [0, U^L) *)
AcceptedImpliesInRange == AttackerAccepted => WSum(claim, 1) \in 0..(Top - 1)
MaxForgeable == AttackerAccepted => WSum(claim, 1) <= Top - 1
MaxReached == (\A j \in 1..L : ds[j] = U - 1 /\ claim[j] = U - 1) => WSum(claim, 1) = Top - 1
=============================================================================
