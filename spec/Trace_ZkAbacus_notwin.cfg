SPECIFICATION TSpec
CONSTANTS
  Channels <- TChannels
  MerOf <- TMerOf
  InitBals <- TEmpty
  Amounts <- TEmpty
  FaultKinds <- TEmpty
  AdvChannels <- TEmpty
  ProofSound = TRUE
  RevKinds <- TEmpty
  MaxPays = 100000
  Aspects = {}
  NAdd <- TAdd
  NSub <- TSub
  NLeq <- TLeq
  NZero <- TZero
  MaxBal <- TMaxBal
  UMax <- TUMax
INVARIANTS CanClose LedgerShape Conservation HeldSigsValid TagSeparation IssuedMatchesLedger TokenOnlyAfterRevocation ClosedOnUnrevoked MerchantExposureBounded NoDoubleSpend DisputeWindow DisputePunishOld DisputeOutcomeConserves MerchantPayoffBound DisputeCustomerSafe RevealedAgree
PROPERTIES RefusedIsInert OutcomeOnlyByCustomer ReleaseOnlyOnAccept RefusedStartInert TokenIffOpens RestoreStutters ReplayRefused FaultRefused HonestAccepted
POSTCONDITION Accepted
CHECK_DEADLOCK FALSE
