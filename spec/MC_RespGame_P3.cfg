SPECIFICATION Spec
CONSTANTS P = 3
          BATCH = FALSE
INVARIANTS ForcedResponse Sound Complete
CHECK_DEADLOCK FALSE
