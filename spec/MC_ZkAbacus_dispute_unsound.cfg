SPECIFICATION Spec
CONSTANTS
  MCMaxBal = 1
  AmtRange = 1
  MaxPays = 2
  MCChannels = {2}
  Channels <- MCChannels
  MerOf <- MCMerOf
  InitBals <- MCInitBals
  Amounts <- MCAmounts
  FaultKinds <- MCNone
  AdvChannels <- MCAdv
  ProofSound = FALSE
  RevKinds <- MCNone
  NAdd <- MCAdd
  NSub <- MCSub
  NLeq <- MCLeq
  NZero = 0
  MaxBal = 1
  UMax = 3
INVARIANTS DisputePunishOld
CHECK_DEADLOCK FALSE
