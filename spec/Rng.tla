---------------------------------- MODULE Rng ----------------------------------
(***************************************************************************)
(* Randomness as an explicit stream.  The library's sampling loops         *)
(*   Nonce::new            redraw while the scalar equals the close tag    *)
(*   SecretKey::new        redraw while a key scalar is zero (x, y_1..y_N) *)
(* are transcribed as loops consuming a stream of draw CLASSES chosen by   *)
(* the environment (an adversarial or faulty generator); the model         *)
(* predicts the class of every output and the number of draws consumed.    *)
(* (Group-element draws cannot yield the identity: bls12_381's `random`    *)
(* excludes it, and the library wraps it in a loop anyway.)                *)
(***************************************************************************)
EXTENDS Integers, Sequences, FiniteSets, TLC
CONSTANTS N,          \* number of y scalars of the key
          MaxBad      \* bound on bad draws the environment may inject (model checking only)

VARIABLES pc,         \* "nonce" | "key" | "done"
          draws,      \* number of scalar draws consumed
          bad,        \* bad draws injected so far
          nonce,      \* class of the generated nonce: "none" | "close" | "generic"
          key         \* sequence of classes of the key scalars generated so far
vars == <<pc, draws, bad, nonce, key>>

Init == pc = "nonce" /\ draws = 0 /\ bad = 0 /\ nonce = "none" /\ key = <<>>

(* Nonce::new: one iteration *)
NonceDraw(cls) ==
  /\ pc = "nonce" /\ draws' = draws + 1
  /\ IF cls = "close"
     THEN bad < MaxBad /\ bad' = bad + 1 /\ UNCHANGED <<pc, nonce, key>>           \* refused, redraw
     ELSE nonce' = cls /\ pc' = "key" /\ UNCHANGED <<bad, key>>
(* get_nonzero_scalar: one iteration *)
KeyDraw(cls) ==
  /\ pc = "key" /\ draws' = draws + 1
  /\ IF cls = "zero"
     THEN bad < MaxBad /\ bad' = bad + 1 /\ UNCHANGED <<pc, nonce, key>>
     ELSE /\ key' = Append(key, cls)
          /\ pc' = IF Len(key) + 1 = N + 1 THEN "done" ELSE "key"
          /\ UNCHANGED <<bad, nonce>>
Next == \/ \E c \in {"close", "generic", "zero"} : NonceDraw(c)          \* a zero nonce is allowed
        \/ \E c \in {"zero", "generic", "close"} : KeyDraw(c)            \* the close tag is an ordinary key scalar
Spec == Init /\ [][Next]_vars /\ WF_vars(Next)

NonceNeverClose == nonce # "close"
KeyScalarsNonZero == \A i \in 1..Len(key) : key[i] # "zero"
DrawCount == pc = "done" => draws = 1 + (N + 1) + bad
Terminates == <>(pc = "done")
=============================================================================
