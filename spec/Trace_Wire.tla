-------------------------------- MODULE Trace_Wire --------------------------------
(* Validates decoding observations of the real code (harness `c15`, `c16`) against Wire.tla:  *)
(*  c15 atom:      one atom of an honest encoding replaced by an encoding of class `class`;   *)
(*                 decoding fails iff the role table forbids that class at that leaf, and a   *)
(*                 successfully decoded value re-encodes to the same bytes                    *)
(*  c15 roundtrip: the honest encoding decodes and re-encodes byte for byte                   *)
(*  c16:           length prefixes, truncation, extension, random strings: the outcome is a   *)
(*                 value or an error (never a panic or an abort), memory requests stay in     *)
(*                 proportion to the input, an altered array length never decodes             *)
EXTENDS WireRoles, Json, IOUtils, TLC
Rec == ndJsonDeserialize(IOEnv.TRACE)
VARIABLE l
r == Rec[l]
IsEv(e) == l <= Len(Rec) /\ Rec[l].ev = e /\ l' = l + 1
IsCodec(t) == t \in {"Vec<G1Affine> codec", "Vec<Scalar> codec"}
T15 == /\ IsEv("c15")
       /\ r.out \in {"ok", "err"}
       /\ r.alloc_in_proportion
       /\ r.kind = "roundtrip" => r.out = "ok" /\ r.reencodes
       /\ r.kind = "atom" => /\ Optional(r.struct, r.field, r.in_pair, r.class) \/ (r.out = "err") = Forbidden(r.struct, r.field, r.in_pair, r.class)
                             /\ r.out = "ok" => r.reencodes
T16 == /\ IsEv("c16")
       /\ r.out \in {"ok", "err"}
       /\ r.alloc_in_proportion
       /\ r.out = "ok" => r.reencodes
       /\ r.kind = "truncate" => r.out = "err"
       \* (an honest encoding followed by extra bytes: a value or an error - the properties do not say which)
       /\ (r.kind = "len" /\ r.class = "n") => r.out = "ok"
       /\ (r.kind = "len" /\ r.class # "n" /\ ~IsCodec(r.type)) => r.out = "err"
       /\ (r.kind = "len" /\ r.class \in {"2^32", "2^60", "2^64-1"}) => r.out = "err"
TNext == T15 \/ T16
TSpec == l = 1 /\ [][TNext]_l
Accepted ==
  LET n == TLCGet("stats").diameter - 1 IN
  IF n = Len(Rec) THEN TRUE
  ELSE /\ PrintT(<<"TRACE_MISMATCH", "matched", n, "of", Len(Rec), "next_event", ToJson(Rec[n + 1])>>)
       /\ FALSE
=============================================================================
