------------------------------- MODULE AtomFlow -------------------------------
(***************************************************************************)
(* What the merchant sees (C14).  Every message is a set of atom terms;    *)
(* two atoms are the same value iff they are the same term.  A signature   *)
(* issued for state k of channel ch is the pair                            *)
(*      <<"s1", typ, ch, k, rnd>>, <<"s2", typ, ch, k, rnd, blinding>>     *)
(* where rnd = 0 is the signature as the merchant sent it (unblinding      *)
(* leaves sigma1 untouched) and rnd > 0 a re-randomisation with a fresh    *)
(* randomiser.  Commitments, scalar commitments and response scalars of a  *)
(* proof depend on fresh blinding / commitment scalars: <<"prf", ch, n,i>>.*)
(* The customer (customer.rs, proofs.rs, signature.rs) re-randomises       *)
(*   - the pay token inside the signature proof of a pay proof,            *)
(*   - the 18 digit signatures of the two range constraints,               *)
(*   - the closing signature in a closing message,                         *)
(* which is switched off by RERANDOMIZE = FALSE to show NoReuse is not     *)
(* vacuous (MC_AtomFlow_norerand.cfg must violate it).                     *)
(***************************************************************************)
EXTENDS Integers, Sequences, FiniteSets, TLC
CONSTANTS Channels, MaxPays, RERANDOMIZE,
          LEAK,    \* spec mutant: the pay message also carries the NEW state's nonce (NoSecretLeak must fail)
          KEEPNONCE \* spec mutant: a payment does not draw a fresh nonce for the new state (NoReuse must fail)

VARIABLES stage,     \* [Channels -> "none","requested","ready","started","locked","closed"]
          k,         \* [Channels -> current state index]
          seen,      \* every atom the merchant has seen (its own messages and parameters included)
          fresh,     \* counter for fresh randomisers / proof randomness
          lastMsg,   \* atoms of the last customer message (for the invariant)
          allowed    \* the secrets that message reveals BY DESIGN
vars == <<stage, k, seen, fresh, lastMsg, allowed>>

(* the secret scalars a customer at state index i of channel c holds: nonce and revocation pair of every *)
(* state it knows (current and, during a payment, the next one), and the blinding factors of its requests *)
Secrets(c, i) == {<<"nonce", c, j>> : j \in {i, i + 1}} \cup {<<"lock", c, j>> : j \in {i, i + 1}}
                 \cup {<<"secret", c, j>> : j \in {i, i + 1}} \cup {<<"rlbf", c, i>>, <<"bf", c, i>>, <<"bf", c, i + 1>>}

Sig(typ, ch, i, rnd, bl) == {<<"s1", typ, ch, i, rnd>>, <<"s2", typ, ch, i, rnd, bl>>}
Digits == {<<"s1", "digit", 0, d, 0>> : d \in 0..1} \cup {<<"s2", "digit", 0, d, 0, "plain">> : d \in 0..1}
Proof(ch, n) == {<<"prf", ch, n, i>> : i \in 1..2}
Rnd == IF RERANDOMIZE THEN fresh + 1 ELSE 0

NonceAt(c, i) == IF KEEPNONCE THEN <<"nonce", c, 0>> ELSE <<"nonce", c, i>>
Init == /\ stage = [c \in Channels |-> "none"] /\ k = [c \in Channels |-> 0]
        /\ seen = Digits /\ fresh = 0 /\ lastMsg = {} /\ allowed = {}

Send(atoms) == lastMsg' = atoms /\ seen' = seen \cup atoms
(* establish proof, then the merchant's closing signature and pay token for state 0 *)
Establish(c) == /\ stage[c] = "none"
                /\ Send(Proof(c, fresh + 1)) /\ allowed' = {}
                /\ fresh' = fresh + 1
                /\ stage' = [stage EXCEPT ![c] = "requested"] /\ UNCHANGED k
MerchantReplies(c) == /\ stage[c] = "requested"
                      /\ seen' = seen \cup Sig("close", c, 0, 0, "blinded") \cup Sig("token", c, 0, 0, "blinded")
                      /\ stage' = [stage EXCEPT ![c] = "ready"] /\ UNCHANGED <<k, fresh, lastMsg, allowed>>
(* pay proof: old nonce, re-randomised + blinded pay token, re-randomised digit signatures, fresh proof atoms *)
Pay(c) == /\ stage[c] = "ready" /\ k[c] < MaxPays
          /\ Send({NonceAt(c, k[c])} \cup Sig("token", c, k[c], Rnd, "proofblind") \cup Proof(c, fresh + 1)
                  \cup {<<"s1", "digit", 0, 1, Rnd>>, <<"s2", "digit", 0, 1, Rnd, "proofblind">>}
                  \cup (IF LEAK THEN {<<"nonce", c, k[c] + 1>>} ELSE {}))
          /\ allowed' = {NonceAt(c, k[c])}                       \* the old nonce is revealed by design
          /\ fresh' = fresh + 1
          /\ stage' = [stage EXCEPT ![c] = "started"] /\ UNCHANGED k
MerchantAllows(c) == /\ stage[c] = "started"
                     /\ seen' = seen \cup Sig("close", c, k[c] + 1, 0, "blinded")
                     /\ stage' = [stage EXCEPT ![c] = "locking"] /\ UNCHANGED <<k, fresh, lastMsg, allowed>>
(* lock message: the old revocation pair and the blinding factor of its commitment *)
Lock(c) == /\ stage[c] = "locking"
           /\ lastMsg' = {<<"lock", c, k[c]>>, <<"secret", c, k[c]>>, <<"rlbf", c, k[c]>>}
           /\ allowed' = lastMsg'                                     \* the old pair and its blinding factor
           /\ seen' = seen \cup lastMsg' \cup Sig("token", c, k[c] + 1, 0, "blinded")    \* followed by the merchant's new pay token
           /\ k' = [k EXCEPT ![c] = @ + 1]
           /\ stage' = [stage EXCEPT ![c] = "ready"] /\ UNCHANGED fresh
(* closing message from any closable stage: re-randomised closing signature, lock of the closing state *)
Close(c) == /\ stage[c] \in {"ready", "started", "locking"}
            /\ Send(Sig("close", c, k[c], Rnd, "plain") \cup {<<"lock", c, k[c]>>})
            /\ allowed' = {<<"lock", c, k[c]>>}                       \* the lock of the closing state
            /\ fresh' = fresh + 1
            /\ stage' = [stage EXCEPT ![c] = "closed"] /\ UNCHANGED k
Next == \E c \in Channels : Establish(c) \/ MerchantReplies(c) \/ Pay(c) \/ MerchantAllows(c) \/ Lock(c) \/ Close(c)
Spec == Init /\ [][Next]_vars

(* no atom of a customer message was in the merchant's view before it was sent *)
NoReuse == [][lastMsg' # lastMsg => lastMsg' \cap seen = {}]_vars
(* no secret the customer holds occurs in a message unless the step reveals it by design *)
NoSecretLeak == \A c \in Channels : (lastMsg \cap Secrets(c, k[c])) \subseteq allowed
=============================================================================
