------------------------------- MODULE Ledger -------------------------------
(***************************************************************************)
(* Balances and payment amounts of zkAbacus (zkabacus-crypto/src/lib.rs,   *)
(* states.rs): Balance::try_new, PaymentAmount::pay_merchant/pay_customer, *)
(* CustomerBalance::apply, MerchantBalance::apply, MerchantBalance::try_add*)
(* State::apply_payment and the scalar encoding used inside the proofs.    *)
(*                                                                         *)
(* The module is parametric in the number representation so that the very  *)
(* same definitions are                                                    *)
(*   (a) model checked exhaustively on TLC integers for small word sizes   *)
(*       (MC_Ledger: every input of a W-bit machine, W = 3..8), and        *)
(*   (b) evaluated on base-10^9 limb triples for true 64-bit values when   *)
(*       traces of the implementation are validated (TLC integers are      *)
(*       32 bit).  See Big.tla for the limb arithmetic and MC_Ledger for   *)
(*       the refinement check limb arithmetic = integer arithmetic.        *)
(*                                                                         *)
(* A number is an opaque value; a signed amount is [neg, mag].             *)
(***************************************************************************)
CONSTANTS NAdd(_, _),     \* addition of two numbers
          NSub(_, _),     \* subtraction, only used when the result is >= 0
          NLeq(_, _),     \* comparison
          NZero,          \* 0
          MaxBal,         \* 2^(W-1) - 1   (real code: i64::MAX)
          UMax            \* 2^W - 1       (real code: u64::MAX)

Ok(v)    == [ok |-> TRUE,  v |-> v,     err |-> "none"]
Err(e)   == [ok |-> FALSE, v |-> NZero, err |-> e]

NLt(a, b) == NLeq(a, b) /\ ~NLeq(b, a)
NEq(a, b) == NLeq(a, b) /\ NLeq(b, a)

(* Balance::try_new(u64): Ok iff value <= i64::MAX, else AmountTooLarge *)
TryNew(u) == IF NLeq(u, MaxBal) THEN Ok(u) ELSE Err("AmountTooLarge")

(* PaymentAmount::pay_merchant / pay_customer (u64 -> signed amount) *)
Amt(neg, mag)   == [neg |-> neg, mag |-> mag]
PayMerchant(u)  == IF NLeq(u, MaxBal) THEN Ok(Amt(FALSE, u)) ELSE Err("AmountTooLarge")
PayCustomer(u)  == IF NLeq(u, MaxBal) THEN Ok(Amt(~NEq(u, NZero), u)) ELSE Err("AmountTooLarge")
IsZeroAmt(a)    == NEq(a.mag, NZero)

(* CustomerBalance::apply: b - a;  negative -> InsufficientFunds; > MaxBal -> AmountTooLarge *)
ApplyC(b, a) ==
  IF a.neg THEN LET s == NAdd(b, a.mag) IN
                  IF NLeq(s, MaxBal) THEN Ok(s) ELSE Err("AmountTooLarge")
           ELSE IF NLeq(a.mag, b) THEN Ok(NSub(b, a.mag)) ELSE Err("InsufficientFunds")

(* MerchantBalance::apply: b + a *)
ApplyM(b, a) == ApplyC(b, Amt(~a.neg /\ ~IsZeroAmt(a), a.mag))

(* MerchantBalance::try_add(CustomerBalance) *)
TryAdd(m, c) == TryNew(NAdd(m, c))

(* State::apply_payment: both balances must succeed.  When both fail either   *)
(* documented error is justified; the code reports the customer's error first. *)
ApplyBoth(cb, mb, a) ==
  LET rc == ApplyC(cb, a)   rm == ApplyM(mb, a) IN
  [ok   |-> rc.ok /\ rm.ok,
   cb   |-> rc.v,
   mb   |-> rm.v,
   errs |-> (IF rc.ok THEN {} ELSE {rc.err}) \cup (IF rm.ok THEN {} ELSE {rm.err}),
   first |-> IF ~rc.ok THEN rc.err ELSE IF ~rm.ok THEN rm.err ELSE "none"]
=============================================================================
