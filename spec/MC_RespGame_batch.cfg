SPECIFICATION Spec
CONSTANTS P = 5
          BATCH = TRUE
INVARIANTS Sound
CHECK_DEADLOCK FALSE
