INIT Init
NEXT Next
CONSTANTS W = 5
          P = 67
INVARIANTS TryNewExact PayCtorsExact ApplyExact Conservation TryAddExact EncHom LimbRefines
CHECK_DEADLOCK FALSE
