INIT Init
NEXT Next
CONSTANTS W = 4
          P = 37
INVARIANTS TryNewExact PayCtorsExact ApplyExact Conservation TryAddExact EncHom LimbRefines
CHECK_DEADLOCK FALSE
